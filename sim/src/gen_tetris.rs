//! G-tetris: gridded (track-based) libraries and a pdka-like layer stack for C20's gridded->raw conversion.

use crate::rng::Tape;
use layout21raw as raw;
use layout21tetris as tetris;
use tetris::stack::*;
use tetris::tracks::*;
use tetris::utils::{Ptr, PtrList};

/// A realistic five-metal stack (modelled on the repository's own sample stack)
pub fn stack(variant: u64) -> raw::LayoutResult<tetris::validate::ValidStack> {
    let mut rawlayers = raw::Layers::default();
    let metal_purps = [(255, raw::LayerPurpose::Obstruction), (20, raw::LayerPurpose::Drawing), (5, raw::LayerPurpose::Label), (16, raw::LayerPurpose::Pin)];
    let via_purps = [(255, raw::LayerPurpose::Obstruction), (44, raw::LayerPurpose::Drawing), (5, raw::LayerPurpose::Label), (16, raw::LayerPurpose::Pin)];
    rawlayers.add(raw::Layer::new(64, "nwell").add_pairs(&metal_purps)?);
    rawlayers.add(raw::Layer::new(67, "li1").add_pairs(&metal_purps)?);
    let horiz = |rawlayers: &mut raw::Layers, name: &str, num: i16, flip: FlipMode, prim: PrimitiveMode| -> raw::LayoutResult<MetalLayer> {
        Ok(MetalLayer {
            name: name.into(),
            entries: vec![TrackSpec::gnd(480), TrackSpec::repeat(vec![TrackEntry::gap(200), TrackEntry::sig(140)], 6), TrackSpec::gap(200), TrackSpec::pwr(480)],
            dir: raw::Dir::Horiz,
            offset: (-240).into(),
            cutsize: (250).into(),
            overlap: (480).into(),
            raw: Some(rawlayers.add(raw::Layer::from_pairs(num, &metal_purps)?)),
            flip,
            prim,
        })
    };
    let flip = if variant % 2 == 0 { FlipMode::EveryOther } else { FlipMode::None };
    let m1 = horiz(&mut rawlayers, "met1", 68, FlipMode::EveryOther, PrimitiveMode::Split)?;
    let m2 = MetalLayer { name: "met2".into(), entries: vec![TrackSpec::sig(140), TrackSpec::gap(320)], dir: raw::Dir::Vert, cutsize: (250).into(), offset: (-70).into(), overlap: (0).into(), raw: Some(rawlayers.add(raw::Layer::from_pairs(69, &metal_purps)?)), flip: FlipMode::None, prim: PrimitiveMode::Stack };
    let m3 = horiz(&mut rawlayers, "met3", 70, flip, PrimitiveMode::Stack)?;
    let m4 = MetalLayer {
        name: "met4".into(),
        entries: vec![TrackSpec::gnd(510), TrackSpec::repeat(vec![TrackEntry::gap(410), TrackEntry::sig(50)], 8), TrackSpec::gap(410), TrackSpec::pwr(510)],
        dir: raw::Dir::Vert,
        cutsize: (250).into(),
        offset: (-255).into(),
        overlap: (510).into(),
        raw: Some(rawlayers.add(raw::Layer::from_pairs(71, &metal_purps)?)),
        flip: FlipMode::EveryOther,
        prim: PrimitiveMode::Stack,
    };
    let m5 = horiz(&mut rawlayers, "met5", 72, FlipMode::EveryOther, PrimitiveMode::Stack)?;
    let via = |rawlayers: &mut raw::Layers, name: &str, num: i16, bot: ViaTarget, top: ViaTarget| -> raw::LayoutResult<ViaLayer> { Ok(ViaLayer { name: name.into(), size: (240, 240).into(), bot, top, raw: Some(rawlayers.add(raw::Layer::from_pairs(num, &via_purps)?)) }) };
    let vias = vec![via(&mut rawlayers, "mcon", 67, ViaTarget::Primitive, ViaTarget::Metal(0))?, via(&mut rawlayers, "via1", 68, 0.into(), 1.into())?, via(&mut rawlayers, "via2", 69, 1.into(), 2.into())?, via(&mut rawlayers, "via3", 70, 2.into(), 3.into())?, via(&mut rawlayers, "via4", 71, 3.into(), 4.into())?];
    let stack = Stack {
        units: raw::Units::Nano,
        boundary_layer: Some(rawlayers.add(raw::Layer::from_pairs(236, &[(0, raw::LayerPurpose::Outline)])?)),
        prim: PrimitiveLayer { pitches: (460, 2720).into() },
        metals: vec![m1, m2, m3, m4, m5],
        vias,
        rawlayers: Some(Ptr::new(rawlayers)),
    };
    stack.validate()
}

pub fn gen_tetris(t: &mut Tape) -> raw::LayoutResult<(tetris::library::Library, tetris::validate::ValidStack)> {
    use tetris::layout::Layout;
    use tetris::outline::Outline;
    let stk = stack(t.draw(2))?;
    let mut lib = tetris::library::Library::new(format!("tlib{}", t.draw(10)));
    let ncells = t.range(1, 4);
    let mut cells: Vec<(Ptr<tetris::cell::Cell>, i64, i64, usize)> = Vec::new();
    let mut list: PtrList<tetris::cell::Cell> = PtrList::new();
    // raw-defined cells wrapped as gridded cells (their raw library registered with the gridded one, or not)
    if t.chance(1, 3) {
        let rawlayers = stk.rawlayers.clone();
        let mut rl = raw::Library::new(format!("rawdep{}", t.draw(4)), raw::Units::Nano);
        if let Some(l) = rawlayers {
            rl.layers = l;
        }
        let mut rcells = Vec::new();
        for k in 0..t.range(1, 4) {
            let c = raw::Cell::from(raw::Layout { name: format!("rawcell{}", k), ..Default::default() });
            rcells.push(rl.cells.insert(c));
        }
        let register = t.chance(1, 2);
        let libptr = if register { lib.add_rawlib(rl) } else { Ptr::new(rl) };
        for (k, rc) in rcells.into_iter().enumerate() {
            let (x, y) = (4 + k as isize, 1);
            let w = tetris::cell::RawLayoutPtr { outline: Outline::rect(x, y)?, metals: 1, lib: libptr.clone(), cell: rc };
            cells.push((list.insert(w), x as i64, y as i64, 1));
        }
    }
    for ci in 0..ncells {
        let big = t.chance(1, 40);
        let x = if big { 800 + t.draw(400) as isize } else { (10 + t.draw(120) as isize) * (ci as isize + 1) };
        let y = if big { 100 + t.draw(60) as isize } else { (2 + t.draw(8) as isize) * (ci as isize + 1) };
        let metals = 1 + t.draw(4) as usize;
        if t.chance(1, 5) {
            // an abstract with edge ports
            let mut a = tetris::abs::Abstract::new(format!("abs{}", ci), metals, Outline::rect(x, y)?);
            for pi in 0..t.draw(3) {
                let layer = t.draw(metals as u64) as usize;
                a.ports.push(tetris::abs::Port { name: format!("p{}", pi), kind: tetris::abs::PortKind::Edge { layer, track: 1 + t.draw(4) as usize, side: if t.chance(1, 2) { tetris::abs::Side::BottomOrLeft } else { tetris::abs::Side::TopOrRight } } });
            }
            cells.push((list.insert(a), x as i64, y as i64, metals));
            continue;
        }
        let mut lay = Layout::new(format!("cell{}", ci), metals, Outline::rect(x, y)?);
        // instances of earlier, smaller cells on the grid
        let mut insts = Vec::new();
        for k in 0..t.draw(3) {
            if cells.is_empty() {
                break;
            }
            let (c, cx, cy, _m) = t.pick(&cells).clone();
            if cx < x as i64 && cy < y as i64 {
                let lx = t.draw((x as i64 - cx) as u64 + 1) as isize;
                let ly = t.draw((y as i64 - cy) as u64 + 1) as isize;
                insts.push(tetris::instance::Instance { inst_name: format!("i{}", k), cell: c, loc: (lx, ly).into(), reflect_horiz: t.chance(1, 3), reflect_vert: t.chance(1, 3) });
            }
        }
        lay.instances = insts.into();
        if metals >= 2 {
            for _ in 0..t.draw(5) {
                let layer = t.draw(metals as u64 - 1) as usize;
                let tc = TrackCross::from_relz(layer, 1 + t.draw(6) as usize, 1 + t.draw(6) as usize, RelZ::Above);
                if t.chance(1, 2) {
                    lay.cuts.push(tc);
                } else {
                    lay.assignments.push(Assign { net: format!("net{}", t.draw(3)), at: tc });
                }
            }
        }
        cells.push((list.insert(lay), x as i64, y as i64, metals));
    }
    if t.chance(1, 3) {
        let mut v: Vec<Ptr<tetris::cell::Cell>> = cells.iter().map(|c| c.0.clone()).collect();
        v.reverse();
        list = PtrList::from_ptrs(v);
    }
    lib.cells = list;
    Ok((lib, stk))
}
