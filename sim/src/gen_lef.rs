//! G-lef: grammar-driven generator of LEF text. It is at the same time the
//! "independent renderer": texts are produced from the LEF syntax, not from
//! lef21's writer, with lexical variation (statement order, whitespace,
//! newlines, comments, keyword case, decimal spellings).

use crate::rng::Tape;

#[derive(Clone, Debug)]
pub struct LefSwarm {
    /// "5.3" .. "5.8", or None for no VERSION statement
    pub version: Option<&'static str>,
    pub end_library: bool,
    pub mixed_case: bool,
    pub comments: bool,
    pub utf8_comments: bool,
    pub utf8_names: bool,
    pub odd_spacing: bool,
    pub p_opt: u64,
    pub sites: bool,
    pub vias: bool,
    pub propdefs: bool,
    pub extensions: bool,
    pub units: bool,
    pub header: bool,
    pub density: bool,
    pub properties: bool,
    pub iterate: bool,
    pub masks: bool,
    pub max_macros: u64,
    pub max_pins: u64,
    /// line ends: 0 = LF, 1 = CRLF, 2 = mixed (LF, CRLF and a lone CR before LF-terminated lines)
    pub eol: u8,
    /// text after END LIBRARY
    pub trailer: u8,
}
impl LefSwarm {
    pub fn draw(t: &mut Tape, allow_utf8: bool) -> Self {
        let version = *t.pick(&[Some("5.3"), Some("5.4"), Some("5.5"), Some("5.6"), Some("5.7"), Some("5.8"), Some("5.8"), None, Some("5.3"), Some("5.5"), Some("5.7"), Some("5")]);
        LefSwarm {
            version,
            end_library: t.chance(3, 4),
            mixed_case: t.chance(1, 3),
            comments: t.chance(1, 3),
            utf8_comments: allow_utf8 && t.chance(1, 3),
            utf8_names: allow_utf8 && t.chance(1, 4),
            odd_spacing: t.chance(1, 3),
            p_opt: *t.pick(&[100, 300, 500, 800, 1000]),
            sites: t.chance(1, 2),
            vias: t.chance(1, 2),
            propdefs: t.chance(1, 3),
            extensions: t.chance(1, 4),
            units: t.chance(2, 3),
            header: t.chance(2, 3),
            density: t.chance(1, 3),
            properties: t.chance(1, 3),
            iterate: t.chance(1, 3),
            masks: t.chance(1, 3),
            max_macros: *t.pick(&[0, 1, 1, 2, 3]),
            max_pins: *t.pick(&[0, 1, 2, 4]),
            eol: *t.pick(&[0u8, 0, 0, 0, 0, 0, 1, 2]),
            trailer: *t.pick(&[0u8, 0, 0, 0, 0, 0, 0, 1, 2, 3]),
        }
    }
    fn old(&self) -> bool {
        matches!(self.version, Some("5.3") | Some("5.4") | Some("5"))
    }
}

struct W<'a> {
    t: &'a mut Tape,
    sw: LefSwarm,
    out: String,
    recent: Vec<String>,
}
impl<'a> W<'a> {
    fn opt(&mut self) -> bool {
        let p = self.sw.p_opt;
        self.t.chance(p, 1000)
    }
    /// keyword, possibly in mixed case
    fn kw(&mut self, k: &str) {
        if self.sw.mixed_case {
            let s: String = match self.t.draw(3) {
                0 => k.to_ascii_lowercase(),
                1 => k.chars().enumerate().map(|(i, c)| if i % 2 == 0 { c.to_ascii_lowercase() } else { c }).collect(),
                _ => k.to_string(),
            };
            self.tok(&s);
        } else {
            self.tok(k);
        }
    }
    fn tok(&mut self, s: &str) {
        self.out.push_str(s);
        self.sep();
    }
    fn sep(&mut self) {
        if self.sw.odd_spacing {
            match self.t.draw(6) {
                0 => self.out.push_str("  "),
                1 => self.out.push('\t'),
                2 => self.out.push_str("\n    "),
                3 if self.t.chance(1, 4) => self.out.push_str(" \x0c "),
                _ => self.out.push(' '),
            }
        } else {
            self.out.push(' ');
        }
    }
    fn semi(&mut self) {
        self.out.push(';');
        self.nl();
    }
    fn nl(&mut self) {
        if self.sw.comments && self.t.chance(1, 5) {
            let c = if self.sw.utf8_comments && self.t.chance(1, 2) { *self.t.pick(&[" # commentaire é à ü", " # 日本語のコメント", " # emoji 😀 ok", " # ß"]) } else { *self.t.pick(&[" # a comment", " # END LIBRARY", " #", " # ; MACRO x"]) };
            self.out.push_str(c);
        }
        match self.sw.eol {
            1 => self.out.push_str("\r\n"),
            2 => match self.t.draw(4) {
                0 => self.out.push_str("\r\n"),
                1 => self.out.push_str(" \r \n"),
                _ => self.out.push('\n'),
            },
            _ => self.out.push('\n'),
        }
    }
    fn name(&mut self, prefix: &str) -> String {
        // sometimes the same name again (neighbouring blocks on one layer, a pin named like another, ...)
        if !self.recent.is_empty() && self.t.chance(1, 6) {
            let i = self.t.draw(self.recent.len() as u64) as usize;
            return self.recent[i].clone();
        }
        let s = self.fresh_name(prefix);
        if self.recent.len() < 6 {
            self.recent.push(s.clone());
        } else {
            let i = self.t.draw(6) as usize;
            self.recent[i] = s.clone();
        }
        s
    }
    fn fresh_name(&mut self, prefix: &str) -> String {
        let n = self.t.draw(40);
        let base = match self.t.draw(8) {
            0 => format!("{}{}", prefix, n),
            1 => format!("{}_{}[{}]", prefix, n, self.t.draw(8)),
            2 => format!("{}.{}<{}>", prefix, n, self.t.draw(4)),
            3 => format!("{}{}", prefix.to_ascii_uppercase(), n),
            4 => format!("{}{}T", self.t.draw(30), prefix), // starts with a digit but is not a number
            5 => (*self.t.pick(&["END", "LAYER", "PIN", "MACRO", "SIZE", "CLASS", "BY", "RECT"])).to_string(), // keyword-looking names are legal
            _ => format!("{}{}", prefix, n),
        };
        if self.sw.utf8_names && self.t.chance(1, 3) {
            format!("{}{}", base, self.t.pick(&["é", "日本", "ß", "😀"]))
        } else {
            base
        }
    }
    fn num(&mut self) -> String {
        let neg = self.t.chance(1, 4);
        let int = match self.t.draw(4) {
            0 => 0,
            1 => self.t.draw(10),
            2 => self.t.draw(1000),
            _ => self.t.draw(100_000),
        };
        let s = match self.t.draw(7) {
            0 | 1 => format!("{}", int),
            2 => format!("{}.{}", int, self.t.draw(10)),
            3 => format!("{}.{:03}", int, self.t.draw(1000)),
            4 => format!("{}.{:06}", int, self.t.draw(1_000_000)),
            5 => format!("{}.{}00", int, self.t.draw(10)), // trailing zeros
            _ => format!("0.{:04}", self.t.draw(10_000)),
        };
        if neg {
            format!("-{}", s)
        } else {
            s
        }
    }
    fn posint(&mut self) -> String {
        format!("{}", 1 + self.t.draw(9))
    }
    fn numtok(&mut self) {
        let n = self.num();
        self.tok(&n);
    }
    fn point(&mut self) {
        self.numtok();
        self.numtok();
    }
    fn strlit(&mut self) -> String {
        let body = *self.t.pick(&["VDD", "power1 VDD", "a b c", "", "x=1;y=2", "#notacomment", "END", "two\nlines", "ends in blank \nnext\t\nlast ", "cr\r\nlf", " lead and trail "]);
        format!("\"{}\"", body)
    }

    fn units(&mut self) {
        self.kw("UNITS");
        self.nl();
        let items: [(&str, &str); 8] = [("DATABASE", "MICRONS"), ("TIME", "NANOSECONDS"), ("CAPACITANCE", "PICOFARADS"), ("RESISTANCE", "OHMS"), ("POWER", "MILLIWATTS"), ("CURRENT", "MILLIAMPS"), ("VOLTAGE", "VOLTS"), ("FREQUENCY", "MEGAHERTZ")];
        let start = self.t.draw(8) as usize;
        for i in 0..8 {
            let (a, b) = items[(start + i) % 8];
            if !self.opt() {
                continue;
            }
            self.kw(a);
            self.kw(b);
            if a == "DATABASE" {
                let v = *self.t.pick(&["100", "200", "400", "800", "1000", "2000", "4000", "8000", "10000", "20000"]);
                self.tok(v);
            } else {
                self.numtok();
            }
            self.semi();
        }
        self.kw("END");
        self.kw("UNITS");
        self.nl();
    }
    fn propdefs(&mut self) {
        self.kw("PROPERTYDEFINITIONS");
        self.nl();
        for _ in 0..self.t.range(1, 4) {
            let o = *self.t.pick(&["LAYER", "LIBRARY", "MACRO", "NONDEFAULTRULE", "PIN", "VIA", "VIARULE"]);
            self.kw(o);
            let n = self.name("prop");
            self.tok(&n);
            match self.t.draw(3) {
                0 => {
                    self.kw("STRING");
                    if self.opt() {
                        let s = self.strlit();
                        self.tok(&s);
                    }
                }
                k => {
                    self.kw(if k == 1 { "REAL" } else { "INTEGER" });
                    if self.opt() {
                        self.kw("RANGE");
                        self.numtok();
                        self.numtok();
                    }
                    if self.opt() {
                        self.numtok();
                    }
                }
            }
            self.semi();
        }
        self.kw("END");
        self.kw("PROPERTYDEFINITIONS");
        self.nl();
    }
    fn symmetry(&mut self) {
        self.kw("SYMMETRY");
        for _ in 0..self.t.draw(4) {
            let s = *self.t.pick(&["X", "Y", "R90"]);
            self.kw(s);
        }
        self.semi();
    }
    fn site(&mut self) {
        self.kw("SITE");
        let n = self.name("site");
        self.tok(&n);
        self.nl();
        let mut did_sym = false;
        let first_class = self.t.chance(1, 2);
        if first_class {
            self.kw("CLASS");
            let c = *self.t.pick(&["PAD", "CORE"]);
            self.kw(c);
            self.semi();
        }
        if self.opt() {
            self.symmetry();
            did_sym = true;
        }
        self.kw("SIZE");
        self.numtok();
        self.kw("BY");
        self.numtok();
        self.semi();
        if !first_class {
            self.kw("CLASS");
            let c = *self.t.pick(&["PAD", "CORE"]);
            self.kw(c);
            self.semi();
        }
        if !did_sym && self.opt() {
            self.symmetry();
        }
        self.kw("END");
        self.tok(&n);
        self.nl();
    }
    fn mask(&mut self) {
        if self.sw.masks && self.t.chance(1, 2) {
            self.kw("MASK");
            let m = format!("{}", self.t.draw(4));
            self.tok(&m);
        }
    }
    fn via_def(&mut self) {
        self.kw("VIA");
        let n = self.name("via");
        self.tok(&n);
        if self.opt() {
            self.kw("DEFAULT");
        }
        self.nl();
        if self.t.chance(1, 2) {
            self.kw("VIARULE");
            let r = self.name("rule");
            self.tok(&r);
            self.semi();
            let order = self.t.draw(2);
            let mut stmts: Vec<u8> = vec![0, 1, 2, 3];
            if order == 1 {
                stmts.reverse();
            }
            for s in stmts {
                match s {
                    0 => {
                        self.kw("CUTSIZE");
                        self.point();
                    }
                    1 => {
                        self.kw("LAYERS");
                        for p in ["m", "v", "m"] {
                            let l = self.name(p);
                            self.tok(&l);
                        }
                    }
                    2 => {
                        self.kw("CUTSPACING");
                        self.point();
                    }
                    _ => {
                        self.kw("ENCLOSURE");
                        self.point();
                        self.point();
                    }
                }
                self.semi();
            }
            if self.opt() {
                self.kw("ROWCOL");
                let a = self.posint();
                self.tok(&a);
                let b = self.posint();
                self.tok(&b);
                self.semi();
            }
            if self.opt() {
                self.kw("ORIGIN");
                self.point();
                self.semi();
            }
            if self.opt() {
                self.kw("OFFSET");
                self.point();
                self.point();
                self.semi();
            }
        } else {
            if self.opt() {
                self.kw("RESISTANCE");
                self.numtok();
                self.semi();
            }
            for _ in 0..self.t.draw(4) {
                self.kw("LAYER");
                let l = self.name("met");
                self.tok(&l);
                self.semi();
                for _ in 0..self.t.draw(3) {
                    if self.t.chance(1, 2) {
                        self.kw("RECT");
                        self.mask();
                        self.point();
                        self.point();
                    } else {
                        self.kw("POLYGON");
                        self.mask();
                        for _ in 0..self.t.range(3, 5) {
                            self.point();
                        }
                    }
                    self.semi();
                }
            }
        }
        self.kw("END");
        self.tok(&n);
        self.nl();
    }
    fn layer_geoms(&mut self) {
        self.kw("LAYER");
        let l = self.name("met");
        self.tok(&l);
        if self.opt() && self.t.chance(1, 3) {
            self.kw("EXCEPTPGNET");
        }
        if self.opt() && self.t.chance(1, 2) {
            if self.t.chance(1, 2) {
                self.kw("SPACING");
            } else {
                self.kw("DESIGNRULEWIDTH");
            }
            self.numtok();
        }
        self.semi();
        let mut width_done = false;
        for _ in 0..self.t.draw(5) {
            let stmt_start = self.out.len();
            let mut repeatable = false;
            match self.t.draw(6) {
                0 | 1 | 2 => {
                    repeatable = true;
                    let k = self.t.draw(3);
                    self.kw(["RECT", "POLYGON", "PATH"][k as usize]);
                    self.mask();
                    let it = self.sw.iterate && self.t.chance(1, 3);
                    if it {
                        self.kw("ITERATE");
                    }
                    // one polygon / path in 40 has hundreds of vertices (statements far longer than any line limit)
                    let many = k != 0 && self.t.chance(1, 40);
                    let npts = match k {
                        0 => 2,
                        _ if many => self.t.range(100, 400),
                        1 => self.t.range(3, 6),
                        _ => self.t.range(2, 4),
                    };
                    for _ in 0..npts {
                        self.point();
                    }
                    if it {
                        self.kw("DO");
                        let a = self.posint();
                        self.tok(&a);
                        self.kw("BY");
                        let b = self.posint();
                        self.tok(&b);
                        self.kw("STEP");
                        self.point();
                    }
                    self.semi();
                }
                3 => {
                    repeatable = true;
                    self.kw("VIA");
                    self.point();
                    let v = self.name("via");
                    self.tok(&v);
                    self.semi();
                }
                4 if !width_done => {
                    width_done = true;
                    self.kw("WIDTH");
                    self.numtok();
                    self.semi();
                }
                _ => {}
            }
            // the same statement once more, verbatim (two identical shapes in a row are legal and distinct)
            if repeatable && self.t.chance(1, 8) {
                let again = self.out[stmt_start..].to_string();
                self.out.push_str(&again);
            }
        }
    }
    fn property(&mut self) {
        self.kw("PROPERTY");
        for _ in 0..self.t.range(1, 3) {
            let n = self.name("prop");
            self.tok(&n);
            match self.t.draw(3) {
                0 => self.numtok(),
                1 => {
                    let s = self.strlit();
                    self.tok(&s);
                }
                _ => {
                    let v = self.name("val");
                    self.tok(&v);
                }
            }
        }
        self.semi();
    }
    fn pin(&mut self) {
        self.kw("PIN");
        let n = self.name("pin");
        self.tok(&n);
        self.nl();
        let mut stmts: Vec<u8> = (0..12).collect();
        // rotate for order variation
        let r = self.t.draw(12) as usize;
        stmts.rotate_left(r);
        for s in stmts {
            if !self.opt() {
                continue;
            }
            match s {
                0 => {
                    self.kw("DIRECTION");
                    match self.t.draw(5) {
                        0 => self.kw("INPUT"),
                        1 => self.kw("OUTPUT"),
                        2 => {
                            self.kw("OUTPUT");
                            self.kw("TRISTATE");
                        }
                        3 => self.kw("INOUT"),
                        _ => self.kw("FEEDTHRU"),
                    }
                    self.semi();
                }
                1 => {
                    self.kw("USE");
                    let u = *self.t.pick(&["SIGNAL", "ANALOG", "POWER", "GROUND", "CLOCK"]);
                    self.kw(u);
                    self.semi();
                }
                2 => {
                    self.kw("SHAPE");
                    let u = *self.t.pick(&["ABUTMENT", "RING", "FEEDTHRU"]);
                    self.kw(u);
                    self.semi();
                }
                3 => {
                    self.kw("ANTENNAMODEL");
                    let u = *self.t.pick(&["OXIDE1", "OXIDE2", "OXIDE3", "OXIDE4"]);
                    self.kw(u);
                    self.semi();
                }
                4 => {
                    for _ in 0..self.t.range(1, 3) {
                        let k = *self.t.pick(&["ANTENNADIFFAREA", "ANTENNAGATEAREA", "ANTENNAPARTIALMETALAREA", "ANTENNAPARTIALMETALSIDEAREA", "ANTENNAPARTIALCUTAREA", "ANTENNAPARTIALDIFFAREA", "ANTENNAMAXAREACAR", "ANTENNAMAXSIDEAREACAR", "ANTENNAMAXCUTCAR"]);
                        self.kw(k);
                        self.numtok();
                        if self.t.chance(1, 2) {
                            self.kw("LAYER");
                            let l = self.name("met");
                            self.tok(&l);
                        }
                        self.semi();
                    }
                }
                5 => {
                    self.kw("TAPERRULE");
                    let v = self.name("rule");
                    self.tok(&v);
                    self.semi();
                }
                6 => {
                    self.kw("MUSTJOIN");
                    let v = self.name("pin");
                    self.tok(&v);
                    self.semi();
                }
                7 => {
                    self.kw("SUPPLYSENSITIVITY");
                    let v = self.name("vdd");
                    self.tok(&v);
                    self.semi();
                }
                8 => {
                    self.kw("GROUNDSENSITIVITY");
                    let v = self.name("vss");
                    self.tok(&v);
                    self.semi();
                }
                9 => {
                    self.kw("NETEXPR");
                    let v = self.strlit();
                    self.tok(&v);
                    self.semi();
                }
                10 => {
                    if self.sw.properties {
                        self.property();
                    }
                }
                _ => {
                    for _ in 0..self.t.range(1, 2) {
                        self.kw("PORT");
                        self.nl();
                        if self.t.chance(1, 3) {
                            self.kw("CLASS");
                            let c = *self.t.pick(&["NONE", "CORE", "BUMP"]);
                            self.kw(c);
                            self.semi();
                        }
                        for _ in 0..self.t.draw(3) {
                            self.layer_geoms();
                        }
                        self.kw("END");
                        self.nl();
                    }
                }
            }
        }
        self.kw("END");
        self.tok(&n);
        self.nl();
    }
    fn macro_(&mut self) {
        self.kw("MACRO");
        let n = self.name("cell");
        self.tok(&n);
        self.nl();
        let mut stmts: Vec<u8> = (0..14).collect();
        let r = self.t.draw(14) as usize;
        stmts.rotate_left(r);
        for s in stmts {
            if !self.opt() {
                continue;
            }
            match s {
                0 => {
                    self.kw("CLASS");
                    match self.t.draw(6) {
                        0 => {
                            self.kw("COVER");
                            if self.t.chance(1, 2) {
                                self.kw("BUMP");
                            }
                        }
                        1 => self.kw("RING"),
                        2 => {
                            self.kw("BLOCK");
                            if self.t.chance(1, 2) {
                                let x = *self.t.pick(&["BLACKBOX", "SOFT"]);
                                self.kw(x);
                            }
                        }
                        3 => {
                            self.kw("PAD");
                            if self.t.chance(1, 2) {
                                let x = *self.t.pick(&["INPUT", "OUTPUT", "INOUT", "POWER", "SPACER", "AREAIO"]);
                                self.kw(x);
                            }
                        }
                        4 => {
                            self.kw("CORE");
                            if self.t.chance(1, 2) {
                                let x = *self.t.pick(&["FEEDTHRU", "TIEHIGH", "TIELOW", "SPACER", "ANTENNACELL", "WELLTAP"]);
                                self.kw(x);
                            }
                        }
                        _ => {
                            self.kw("ENDCAP");
                            let x = *self.t.pick(&["PRE", "POST", "TOPLEFT", "TOPRIGHT", "BOTTOMLEFT", "BOTTOMRIGHT"]);
                            self.kw(x);
                        }
                    }
                    self.semi();
                }
                1 => {
                    self.kw("FIXEDMASK");
                    self.semi();
                }
                2 => {
                    self.kw("FOREIGN");
                    let f = self.name("fcell");
                    self.tok(&f);
                    if self.t.chance(1, 2) {
                        self.point();
                        if self.t.chance(1, 2) {
                            let o = *self.t.pick(&["N", "S", "E", "W", "FN", "FS", "FE", "FW"]);
                            self.kw(o);
                        }
                    }
                    self.semi();
                }
                3 => {
                    self.kw("ORIGIN");
                    self.point();
                    self.semi();
                }
                4 => {
                    if self.sw.old() {
                        self.kw("SOURCE");
                        let o = *self.t.pick(&["NETLIST", "DIST", "TIMING", "USER"]);
                        self.kw(o);
                        self.semi();
                    }
                }
                5 => {
                    self.kw("EEQ");
                    let f = self.name("cell");
                    self.tok(&f);
                    self.semi();
                }
                6 => {
                    self.kw("SIZE");
                    self.numtok();
                    self.kw("BY");
                    self.numtok();
                    self.semi();
                }
                7 => self.symmetry(),
                8 => {
                    self.kw("SITE");
                    let f = self.name("site");
                    self.tok(&f);
                    self.semi();
                }
                9 => {
                    for _ in 0..self.t.draw(self.sw.max_pins + 1) {
                        self.pin();
                    }
                }
                10 => {
                    self.kw("OBS");
                    self.nl();
                    for _ in 0..self.t.draw(3) {
                        self.layer_geoms();
                    }
                    self.kw("END");
                    self.nl();
                }
                11 => {
                    if self.sw.properties {
                        self.property();
                    }
                }
                12 => {
                    if self.sw.density {
                        self.kw("DENSITY");
                        self.nl();
                        for _ in 0..self.t.draw(3) {
                            self.kw("LAYER");
                            let l = self.name("met");
                            self.tok(&l);
                            self.semi();
                            for _ in 0..self.t.draw(3) {
                                self.kw("RECT");
                                self.point();
                                self.point();
                                self.numtok();
                                self.semi();
                            }
                        }
                        self.kw("END");
                        self.nl();
                    }
                }
                _ => {}
            }
        }
        self.kw("END");
        self.tok(&n);
        self.nl();
    }
    fn lib(&mut self) {
        if let Some(v) = self.sw.version {
            self.kw("VERSION");
            // alternative spellings of the same version
            // ("5" is a version spelled without a fractional digit, as the repository's own sample does; it sorts before 5.3)
            let v = if self.t.chance(1, 6) { if v.contains('.') { format!("{}0", v) } else { format!("{}.0", v) } } else { v.to_string() };
            self.tok(&v);
            self.semi();
        }
        let mut stmts: Vec<u8> = (0..14).collect();
        let r = self.t.draw(14) as usize;
        stmts.rotate_left(r);
        if self.t.chance(1, 2) {
            stmts.reverse();
        }
        for s in stmts {
            match s {
                0 => {
                    if self.sw.header && self.sw.old() && self.opt() {
                        self.kw("NAMESCASESENSITIVE");
                        let x = *self.t.pick(&["ON", "OFF"]);
                        self.kw(x);
                        self.semi();
                    }
                }
                1 => {
                    if self.sw.header && self.opt() {
                        self.kw("NOWIREEXTENSIONATPIN");
                        let x = *self.t.pick(&["ON", "OFF"]);
                        self.kw(x);
                        self.semi();
                    }
                }
                2 => {
                    if self.sw.header && self.opt() {
                        self.kw("BUSBITCHARS");
                        let x = *self.t.pick(&["\"[]\"", "\"<>\"", "\"()\"", "\"{}\""]);
                        self.tok(x);
                        self.semi();
                    }
                }
                3 => {
                    if self.sw.header && self.opt() {
                        self.kw("DIVIDERCHAR");
                        let x = *self.t.pick(&["\"/\"", "\"|\"", "\".\"", "\":\""]);
                        self.tok(x);
                        self.semi();
                    }
                }
                4 => {
                    if self.sw.units {
                        self.units();
                    }
                }
                5 => {
                    if self.sw.header && self.opt() {
                        self.kw("MANUFACTURINGGRID");
                        self.numtok();
                        self.semi();
                    }
                }
                6 => {
                    if self.sw.header && self.opt() {
                        self.kw("USEMINSPACING");
                        self.kw("OBS");
                        let x = *self.t.pick(&["ON", "OFF"]);
                        self.kw(x);
                        self.semi();
                    }
                }
                7 => {
                    if self.sw.header && self.opt() {
                        self.kw("CLEARANCEMEASURE");
                        let x = *self.t.pick(&["MAXXY", "EUCLIDEAN"]);
                        self.kw(x);
                        self.semi();
                    }
                }
                8 => {
                    if self.sw.propdefs {
                        self.propdefs();
                    }
                }
                9 => {
                    if self.sw.header && self.opt() && self.t.chance(1, 3) {
                        self.kw("FIXEDMASK");
                        self.semi();
                    }
                }
                10 => {
                    if self.sw.vias {
                        for _ in 0..self.t.draw(3) {
                            self.via_def();
                        }
                    }
                }
                11 => {
                    if self.sw.sites {
                        for _ in 0..self.t.draw(3) {
                            self.site();
                        }
                    }
                }
                12 => {
                    for _ in 0..self.t.draw(self.sw.max_macros + 1) {
                        self.macro_();
                    }
                }
                _ => {
                    if self.sw.extensions {
                        self.kw("BEGINEXT");
                        let s = self.strlit();
                        self.tok(&s);
                        for _ in 0..self.t.draw(5) {
                            match self.t.draw(4) {
                                0 => self.numtok(),
                                1 => {
                                    let s = self.strlit();
                                    self.tok(&s);
                                }
                                2 => self.tok(";"),
                                _ => {
                                    let k = *self.t.pick(&["LAYER", "MACRO", "RECT", "END", "CREATOR", "DATE"]);
                                    self.tok(k);
                                }
                            }
                        }
                        self.kw("ENDEXT");
                        self.nl();
                    }
                }
            }
        }
        let need_end = !matches!(self.sw.version, Some("5.6") | Some("5.7") | Some("5.8") | None);
        if self.sw.end_library || need_end {
            self.kw("END");
            self.kw("LIBRARY");
            self.nl();
            // what follows the logical end of the file
            match self.sw.trailer {
                1 => self.out.push_str("\n\n# trailing comment after the end\n\n"),
                2 => self.out.push_str("   \t \n \n"),
                3 => self.out.push_str("MACRO after_the_end\n  SIZE 1 BY 1 ;\nEND after_the_end\n"),
                _ => {}
            }
        }
    }
}

/// A LEF text following the LEF syntax (supported subset), and the swarm it was drawn under
pub fn gen_lef_text(t: &mut Tape, allow_utf8: bool) -> (String, LefSwarm) {
    let sw = LefSwarm::draw(t, allow_utf8);
    let mut w = W { t, sw: sw.clone(), out: String::new(), recent: Vec::new() };
    w.lib();
    (w.out, sw)
}
