//! Conversion inputs for C20: importable GDS libraries, raw libraries with
//! multi-layer abstracts, LEF libraries with multi-layer pins, and canonical dumps.

use crate::rng::Tape;
use gds21::*;
use layout21raw as raw;
use layout21raw::utils::{Ptr, PtrList};
use std::fmt::Write;

// ------------------------------------------------------------------ importable GDS
fn zero_dates() -> GdsDateTimes {
    let z = GdsDateTime { year: 100, month: 1, day: 1, hour: 0, minute: 0, second: 0 };
    GdsDateTimes { modified: z.clone(), accessed: z }
}
pub fn gen_gds_importable(t: &mut Tape) -> GdsLibrary {
    let units = match t.draw(3) {
        0 => GdsUnits(1e-3, 1e-9),
        1 => GdsUnits(1.0, 1e-6),
        _ => GdsUnits(1e-4, 1e-10),
    };
    let ns = t.range(1, 5);
    let nlayers = t.range(1, 7) as i16;
    let mut structs: Vec<GdsStruct> = Vec::new();
    for i in 0..ns {
        let mut elems: Vec<GdsElement> = Vec::new();
        let ne = t.draw(9);
        for _ in 0..ne {
            let layer = t.draw(nlayers as u64) as i16;
            let dt = t.draw(3) as i16;
            let x0 = t.draw(2000) as i32 - 1000;
            let y0 = t.draw(2000) as i32 - 1000;
            let w = 1 + t.draw(300) as i32;
            let h = 1 + t.draw(300) as i32;
            match t.draw(9) {
                0 | 1 | 2 => {
                    let xy = GdsPoint::vec(&[(x0, y0), (x0 + w, y0), (x0 + w, y0 + h), (x0, y0 + h), (x0, y0)]);
                    elems.push(GdsBoundary { layer, datatype: dt, xy, ..Default::default() }.into());
                    if t.chance(1, 2) {
                        // a label inside the shape, on the same layer
                        elems.push(GdsTextElem { string: format!("Net{}", t.draw(4)), layer, texttype: dt, xy: GdsPoint::new(x0 + w / 2, y0 + h / 2), ..Default::default() }.into());
                        // sometimes further labels with other names on the same shape (shorted nets: the importer only warns)
                        for _ in 0..t.draw(3) {
                            elems.push(GdsTextElem { string: format!("Alias{}", t.draw(6)), layer, texttype: dt, xy: GdsPoint::new(x0 + t.draw(w as u64) as i32, y0 + t.draw(h as u64) as i32), ..Default::default() }.into());
                        }
                    }
                }
                3 => {
                    // L-shaped polygon
                    let xy = GdsPoint::vec(&[(x0, y0), (x0 + 2 * w, y0), (x0 + 2 * w, y0 + h), (x0 + w, y0 + h), (x0 + w, y0 + 2 * h), (x0, y0 + 2 * h), (x0, y0)]);
                    elems.push(GdsBoundary { layer, datatype: dt, xy, ..Default::default() }.into());
                }
                4 => {
                    let xy = GdsPoint::vec(&[(x0, y0), (x0 + w, y0), (x0 + w, y0 + h)]);
                    elems.push(GdsPath { layer, datatype: dt, xy, width: Some(2 * (1 + t.draw(10) as i32)), ..Default::default() }.into());
                }
                5 => {
                    let p = |x, y| GdsPoint::new(x, y);
                    elems.push(GdsBox { layer, boxtype: dt, xy: [p(x0, y0), p(x0 + w, y0), p(x0 + w, y0 + h), p(x0, y0 + h), p(x0, y0)], ..Default::default() }.into());
                }
                6 => {
                    elems.push(GdsTextElem { string: format!("note{}", t.draw(9)), layer, texttype: dt, xy: GdsPoint::new(x0, y0), ..Default::default() }.into());
                }
                7 if i > 0 => {
                    let target = t.draw(i) as usize;
                    let strans = if t.chance(1, 2) { Some(GdsStrans { reflected: t.chance(1, 2), angle: if t.chance(1, 2) { Some(*t.pick(&[0.0, 90.0, 180.0, 270.0])) } else { None }, ..Default::default() }) } else { None };
                    elems.push(GdsStructRef { name: structs[target].name.clone(), xy: GdsPoint::new(x0, y0), strans, ..Default::default() }.into());
                }
                8 if i > 0 => {
                    let target = t.draw(i) as usize;
                    let cols = 1 + t.draw(3) as i16;
                    let rows = 1 + t.draw(3) as i16;
                    let p = |x, y| GdsPoint::new(x, y);
                    elems.push(GdsArrayRef { name: structs[target].name.clone(), xy: [p(x0, y0), p(x0 + cols as i32 * 500, y0), p(x0, y0 + rows as i32 * 400)], cols, rows, strans: None, ..Default::default() }.into());
                }
                _ => {
                    elems.push(GdsNode { layer, nodetype: dt, xy: vec![GdsPoint::new(x0, y0)], ..Default::default() }.into());
                }
            }
        }
        structs.push(GdsStruct { name: format!("cell_{}", i), dates: zero_dates(), elems });
    }
    // listing order: sometimes users before their dependencies
    if t.chance(1, 2) {
        structs.reverse();
    }
    GdsLibrary { name: format!("lib{}", t.draw(10)), version: 3, dates: zero_dates(), units, structs, libdirsize: Unsupported, srfname: Unsupported, libsecur: Unsupported, reflibs: Unsupported, fonts: Unsupported, attrtable: Unsupported, generations: Unsupported, format_type: Unsupported }
}

// ------------------------------------------------------------------ raw libraries
fn gen_shape(t: &mut Tape, allow_path: bool) -> raw::Shape {
    let x0 = t.draw(2000) as isize - 1000;
    let y0 = t.draw(2000) as isize - 1000;
    let w = 10 + t.draw(300) as isize;
    let h = 10 + t.draw(300) as isize;
    let p = raw::Point::new;
    match t.draw(if allow_path { 4 } else { 3 }) {
        0 | 1 => raw::Shape::Rect(raw::Rect { p0: p(x0, y0), p1: p(x0 + w, y0 + h) }),
        2 => raw::Shape::Polygon(raw::Polygon { points: vec![p(x0, y0), p(x0 + 2 * w, y0), p(x0 + 2 * w, y0 + h), p(x0 + w, y0 + h), p(x0 + w, y0 + 2 * h), p(x0, y0 + 2 * h)] }),
        _ => raw::Shape::Path(raw::Path { points: vec![p(x0, y0), p(x0 + w, y0), p(x0 + w, y0 + h)], width: 2 * (1 + t.draw(8) as usize) }),
    }
}
pub struct RawOpts {
    pub allow_path_in_abstract: bool,
    pub allow_pico: bool,
}
pub fn gen_raw(t: &mut Tape, o: &RawOpts) -> raw::Library {
    use raw::LayerPurpose::*;
    let units = match t.draw(if o.allow_pico { 4 } else { 3 }) {
        0 => raw::Units::Nano,
        1 => raw::Units::Micro,
        2 => raw::Units::Angstrom,
        _ => raw::Units::Pico,
    };
    let mut lib = raw::Library::new(format!("rawlib{}", t.draw(10)), units);
    let nlayers = t.range(1, 8);
    let mut keys = Vec::new();
    {
        let mut layers = lib.layers.write().unwrap();
        let share = t.chance(1, 3);
        let mut prev_num = 0i16;
        for i in 0..nlayers {
            // distinct Layer objects may share a GDS layer number (e.g. met1 = 68/20 and via = 68/44)
            let num = if share && i > 0 && t.chance(1, 2) { prev_num } else { (i as i16) * 3 + t.draw(3) as i16 + 10 * (i as i16) };
            prev_num = num;
            let mut l = raw::Layer::new(num, format!("met{}", i)).add_pairs(&[(0, Drawing), (1, Pin), (2, Label), (3, Obstruction), (4, Outline)]).unwrap();
            if t.chance(1, 4) {
                // the same purpose registered under a second number (as layer maps with aliases do)
                let p = t.pick(&[Drawing, Pin, Label, Obstruction]).clone();
                let _ = l.add_purpose(20 + t.draw(5) as i16, p);
            }
            keys.push(layers.add(l));
        }
    }
    // mostly a handful of cells; one library in 40 has 63-300 of them (thresholds at which an exporter may change strategy)
    let ncells = if t.chance(1, 40) { *t.pick(&[63u64, 64, 65, 100, 128, 130, 199, 200, 201, 256, 300]) } else { t.range(1, 5) };
    let mut cells: Vec<Ptr<raw::Cell>> = Vec::new();
    let mut list: PtrList<raw::Cell> = PtrList::new();
    for ci in 0..ncells {
        let name = format!("cell{}", ci);
        let mut cell = raw::Cell::new(name.clone());
        let kind = t.draw(3); // 0 layout, 1 abstract, 2 both
        if kind != 1 {
            let mut lay = raw::Layout { name: name.clone(), ..Default::default() };
            for _ in 0..t.draw(7) {
                let purpose = t.pick(&[Drawing, Drawing, Pin, Obstruction]).clone();
                lay.elems.push(raw::Element { net: if t.chance(1, 2) { Some(format!("n{}", t.draw(5))) } else { None }, layer: *t.pick(&keys), purpose, inner: gen_shape(t, true) });
            }
            let with_layout: Vec<&Ptr<raw::Cell>> = cells.iter().filter(|c| c.read().unwrap().layout.is_some()).collect();
            if !with_layout.is_empty() {
                for k in 0..t.draw(4) {
                    let target = (*t.pick(&with_layout)).clone();
                    lay.insts.push(raw::Instance { inst_name: format!("i{}", k), cell: target, loc: raw::Point::new(t.draw(5000) as isize, t.draw(5000) as isize), reflect_vert: t.chance(1, 2), angle: if t.chance(1, 2) { Some(*t.pick(&[0.0, 90.0, 180.0, 270.0])) } else { None } });
                }
            }
            for _ in 0..t.draw(3) {
                lay.annotations.push(raw::TextElement { string: format!("txt{}", t.draw(9)), loc: raw::Point::new(t.draw(100) as isize, t.draw(100) as isize) });
            }
            cell.layout = Some(lay);
        }
        if kind != 0 {
            let w = 100 + t.draw(1000) as isize;
            let h = 100 + t.draw(1000) as isize;
            let p = raw::Point::new;
            let mut abs = raw::Abstract::new(name.clone(), raw::Polygon { points: vec![p(0, 0), p(w, 0), p(w, h), p(0, h)] });
            for pi in 0..t.range(1, 4) {
                let mut port = raw::AbstractPort::new(format!("p{}", pi));
                let nl = t.range(1, keys.len() as u64);
                // distinct layers, insertion order drawn
                let mut ks = keys.clone();
                for _ in 0..nl {
                    let k = ks.remove(t.draw(ks.len() as u64) as usize);
                    let shapes = (0..t.range(1, 3)).map(|_| { let ap = o.allow_path_in_abstract && t.chance(1, 8); gen_shape(t, ap) }).collect();
                    port.shapes.insert(k, shapes);
                }
                abs.ports.push(port);
            }
            let nb = t.draw(keys.len() as u64 + 1);
            let mut ks = keys.clone();
            for _ in 0..nb {
                let k = ks.remove(t.draw(ks.len() as u64) as usize);
                let shapes = (0..t.range(1, 2)).map(|_| gen_shape(t, false)).collect();
                abs.blockages.insert(k, shapes);
            }
            cell.abs = Some(abs);
        }
        cells.push(list.insert(cell));
    }
    // listing order: sometimes users first
    if t.chance(1, 3) {
        let mut v: Vec<Ptr<raw::Cell>> = cells.clone();
        v.reverse();
        list = PtrList::from_ptrs(v);
    }
    lib.cells = list;
    lib
}

// ------------------------------------------------------------------ LEF libraries (for LEF -> raw -> LEF)
/// LEF import case: the library plus, sometimes, a pre-supplied PDK-style layer set (numbers with gaps, some names present)
pub fn gen_lef_import_case(t: &mut Tape) -> (lef21::LefLibrary, Option<Vec<(i16, &'static str)>>) {
    let l = gen_lef_for_import(t);
    let pre = if t.chance(1, 3) {
        let mut v = Vec::new();
        for (num, name) in [(64i16, "nwell"), (67, "li1"), (68, "met1"), (70, "met3"), (235, "prBoundary")] {
            if t.chance(2, 3) {
                v.push((num, name));
            }
        }
        // names that differ from others (and from the LEF's spelling) only in case
        for (num, name) in [(168i16, "MET1"), (268, "Met1"), (170, "MET3"), (167, "LI1")] {
            if t.chance(1, 4) {
                v.push((num, name));
            }
        }
        Some(v)
    } else {
        None
    };
    (l, pre)
}
pub fn gen_lef_for_import(t: &mut Tape) -> lef21::LefLibrary {
    use lef21::*;
    let dec = |t: &mut Tape| LefDecimal::new(t.draw(200_000) as i64 - 20_000, *t.pick(&[0u32, 1, 2, 3, 4]));
    let pt = |t: &mut Tape| LefPoint::new(dec(t), dec(t));
    let layer_names = ["met1", "met2", "met3", "via1", "poly", "li1", "met4"];
    let geoms = |t: &mut Tape, nl: u64| -> Vec<LefLayerGeometries> {
        let mut names: Vec<&str> = layer_names.to_vec();
        (0..nl)
            .map(|_| {
                // mostly distinct layers, sometimes a repeat (merged by the importer)
                let name = if t.chance(1, 6) { layer_names[t.draw(7) as usize].to_string() } else { names.remove(t.draw(names.len() as u64) as usize).to_string() };
                // sometimes spelled with other letter case than anywhere else
                let name = match t.draw(12) {
                    0 => name.to_uppercase(),
                    1 => format!("{}{}", name[..1].to_uppercase(), &name[1..]),
                    2 => format!("{}{}", &name[..1], name[1..].to_uppercase()),
                    _ => name,
                };
                let geometries = (0..t.range(1, 3))
                    .map(|_| {
                        LefGeometry::Shape(match t.draw(3) {
                            0 | 1 => LefShape::Rect(None, pt(t), pt(t)),
                            _ => LefShape::Polygon(None, vec![pt(t), pt(t), pt(t), pt(t)]),
                        })
                    })
                    .collect();
                LefLayerGeometries { layer_name: name, geometries, vias: vec![], except_pg_net: None, spacing: None, width: None }
            })
            .collect()
    };
    let mut lib = LefLibrary::new();
    lib.version = Some(LefDecimal::new(58, 1));
    for mi in 0..t.range(1, 3) {
        let mut m = LefMacro::new(format!("macro{}", mi));
        m.size = Some((LefDecimal::new(t.range(1, 5000) as i64, 2), LefDecimal::new(t.range(1, 5000) as i64, 2)));
        // sometimes no pins at all, so that exporters get as far as the obstructions
        let npins = if t.chance(1, 4) { 0 } else { t.range(1, 4) };
        for pi in 0..npins {
            let mut pin = LefPin::default();
            pin.name = format!("pin{}", pi);
            let nports = t.range(1, 2);
            for _ in 0..nports {
                let nl = t.range(1, 6);
                pin.ports.push(LefPort { class: None, layers: geoms(t, nl) });
            }
            m.pins.push(pin);
        }
        let nobs = t.draw(6);
        m.obs = geoms(t, nobs);
        lib.macros.push(m);
    }
    lib
}

// ------------------------------------------------------------------ canonical dumps
fn dump_shape(s: &raw::Shape) -> String {
    match s {
        raw::Shape::Rect(r) => format!("Rect({},{} {},{})", r.p0.x, r.p0.y, r.p1.x, r.p1.y),
        raw::Shape::Polygon(p) => format!("Polygon({})", p.points.iter().map(|q| format!("{},{}", q.x, q.y)).collect::<Vec<_>>().join(" ")),
        raw::Shape::Path(p) => format!("Path(w={} {})", p.width, p.points.iter().map(|q| format!("{},{}", q.x, q.y)).collect::<Vec<_>>().join(" ")),
    }
}
/// Every order that is part of the result is kept (cells, instances, elements,
/// annotations, ports, shapes, layer slots); only map-typed *fields* are sorted.
pub fn dump_raw(lib: &raw::Library) -> String {
    let mut s = String::new();
    let _ = writeln!(s, "lib.name = {}", lib.name);
    let _ = writeln!(s, "lib.units = {:?}", lib.units);
    let layers = lib.layers.read().unwrap();
    let lname = |k: raw::LayerKey| -> String {
        match layers.get(k) {
            Some(l) => format!("{:?}#{}:{:?}", k, l.layernum, l.name),
            None => format!("{:?}#?", k),
        }
    };
    for (k, l) in layers.slots.iter() {
        let mut purps: Vec<String> = [raw::LayerPurpose::Drawing, raw::LayerPurpose::Pin, raw::LayerPurpose::Label, raw::LayerPurpose::Obstruction, raw::LayerPurpose::Outline].iter().map(|p| format!("{:?}={:?}", p, l.num(p))).collect();
        for n in -3i16..40 {
            if let Some(p) = l.purpose(n) {
                purps.push(format!("{}:{:?}", n, p));
            }
        }
        let _ = writeln!(s, "layers.slot = {:?} num={} name={:?} {}", k, l.layernum, l.name, purps.join(" "));
    }
    let mut nums: Vec<_> = layers.nums.iter().map(|(n, k)| format!("{}->{:?}", n, k)).collect();
    nums.sort();
    let _ = writeln!(s, "layers.nums = {}", nums.join(" "));
    let mut names: Vec<_> = layers.names.iter().map(|(n, k)| format!("{}->{:?}", n, k)).collect();
    names.sort();
    let _ = writeln!(s, "layers.names = {}", names.join(" "));
    for c in lib.cells.iter() {
        let c = c.read().unwrap();
        let _ = writeln!(s, "cell = {}", c.name);
        if let Some(l) = &c.layout {
            let _ = writeln!(s, "cell.layout.name = {}", l.name);
            for i in &l.insts {
                let _ = writeln!(s, "cell.layout.inst = {} of {} at {},{} refl={} angle={:?}", i.inst_name, i.cell.read().unwrap().name, i.loc.x, i.loc.y, i.reflect_vert, i.angle);
            }
            for e in &l.elems {
                let _ = writeln!(s, "cell.layout.elem = net={:?} layer={} purpose={:?} {}", e.net, lname(e.layer), e.purpose, dump_shape(&e.inner));
            }
            for a in &l.annotations {
                let _ = writeln!(s, "cell.layout.annotation = {:?} at {},{}", a.string, a.loc.x, a.loc.y);
            }
        }
        if let Some(a) = &c.abs {
            let _ = writeln!(s, "cell.abs.name = {}", a.name);
            let _ = writeln!(s, "cell.abs.outline = {}", dump_shape(&raw::Shape::Polygon(a.outline.clone())));
            for p in &a.ports {
                let _ = writeln!(s, "cell.abs.port = {}", p.net);
                let mut v: Vec<(String, String)> = p.shapes.iter().map(|(k, sh)| (lname(*k), sh.iter().map(dump_shape).collect::<Vec<_>>().join("; "))).collect();
                v.sort();
                for (k, sh) in v {
                    let _ = writeln!(s, "cell.abs.port.shapes = {} -> {}", k, sh);
                }
            }
            let mut v: Vec<(String, String)> = a.blockages.iter().map(|(k, sh)| (lname(*k), sh.iter().map(dump_shape).collect::<Vec<_>>().join("; "))).collect();
            v.sort();
            for (k, sh) in v {
                let _ = writeln!(s, "cell.abs.blockage = {} -> {}", k, sh);
            }
        }
    }
    s
}
/// GDS dump excluding exactly the library's and the structs' `dates`
pub fn dump_gds_nodates(lib: &GdsLibrary) -> (String, Vec<GdsDateTimes>) {
    let mut l = lib.clone();
    let mut dates = vec![l.dates.clone()];
    l.dates = zero_dates();
    for st in l.structs.iter_mut() {
        dates.push(st.dates.clone());
        st.dates = zero_dates();
    }
    let mut s = String::new();
    let _ = writeln!(s, "gds.name = {}", l.name);
    let _ = writeln!(s, "gds.version = {}", l.version);
    let _ = writeln!(s, "gds.units = {:?}", l.units);
    for st in &l.structs {
        let _ = writeln!(s, "gds.struct = {}", st.name);
        for e in &st.elems {
            let j = serde_json::to_string(e).unwrap_or_default();
            let kind = j.split('"').nth(1).unwrap_or("?").to_string();
            let _ = writeln!(s, "gds.struct.elem.{} = {}", kind, j);
        }
    }
    (s, dates)
}
pub fn dump_lef(lib: &lef21::LefLibrary) -> String {
    let mut s = String::new();
    let _ = writeln!(s, "lef.units = {:?}", lib.units);
    for m in &lib.macros {
        let _ = writeln!(s, "lef.macro = {}", m.name);
        let _ = writeln!(s, "lef.macro.size = {:?}", m.size);
        for p in &m.pins {
            let _ = writeln!(s, "lef.macro.pin = {}", p.name);
            for port in &p.ports {
                for l in &port.layers {
                    let _ = writeln!(s, "lef.macro.pin.port.layer = {} {}", l.layer_name, serde_json::to_string(&l.geometries).unwrap_or_default());
                }
            }
        }
        for l in &m.obs {
            let _ = writeln!(s, "lef.macro.obs.layer = {} {}", l.layer_name, serde_json::to_string(&l.geometries).unwrap_or_default());
        }
    }
    s
}
/// First differing line of two dumps: (path, line a, line b)
pub fn first_diff_line(a: &str, b: &str) -> Option<(String, String, String)> {
    let mut ia = a.lines();
    let mut ib = b.lines();
    loop {
        match (ia.next(), ib.next()) {
            (None, None) => return None,
            (x, y) => {
                let (x, y) = (x.unwrap_or("<end>"), y.unwrap_or("<end>"));
                if x != y {
                    let path = x.split(" = ").next().unwrap_or("").split(':').next().unwrap_or("").trim().to_string();
                    let path: String = path.chars().filter(|c| !c.is_ascii_digit()).collect();
                    return Some((path, x.to_string(), y.to_string()));
                }
            }
        }
    }
}
