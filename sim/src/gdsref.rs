//! R-gds: a GDSII stream codec written from the format description only
//! (DESIGN.md Appendix A). It must not use anything from `gds21`.
//!
//! * neutral model (`NLib` ...)
//! * `encode` : model -> bytes (spec order, exact real encoding)
//! * `scan`   : bytes -> records (framing: even length >= 4, tiles the stream)
//! * `decode` : records -> model through a recursive-descent recogniser of the spec BNF

#[derive(Clone, Debug, PartialEq)]
pub struct NStrans {
    pub flags: u16,
    pub mag: Option<u64>,   // IEEE bits of the double
    pub angle: Option<u64>, // IEEE bits of the double
}
#[derive(Clone, Copy, Debug, PartialEq, Eq)]
pub enum NKind {
    Boundary,
    Path,
    Sref,
    Aref,
    Text,
    Node,
    Box,
}
#[derive(Clone, Debug, PartialEq)]
pub struct NElem {
    pub kind: NKind,
    pub elflags: Option<u16>,
    pub plex: Option<i32>,
    pub layer: Option<i16>,
    /// DATATYPE / TEXTTYPE / NODETYPE / BOXTYPE
    pub xtype: Option<i16>,
    pub pathtype: Option<i16>,
    pub width: Option<i32>,
    pub bgnextn: Option<i32>,
    pub endextn: Option<i32>,
    pub presentation: Option<u16>,
    pub sname: Option<Vec<u8>>,
    pub strans: Option<NStrans>,
    pub colrow: Option<(i16, i16)>,
    pub xy: Vec<i32>,
    pub string: Option<Vec<u8>>,
    pub props: Vec<(i16, Vec<u8>)>,
}
impl NElem {
    pub fn new(kind: NKind) -> Self {
        NElem { kind, elflags: None, plex: None, layer: None, xtype: None, pathtype: None, width: None, bgnextn: None, endextn: None, presentation: None, sname: None, strans: None, colrow: None, xy: vec![], string: None, props: vec![] }
    }
}
#[derive(Clone, Debug, PartialEq)]
pub struct NStruct {
    pub dates: [i16; 12],
    pub name: Vec<u8>,
    pub elems: Vec<NElem>,
}
/// Library-level optional records that gds21 documents as unsupported
#[derive(Clone, Debug, PartialEq)]
pub enum NExtra {
    LibDirSize(i16),
    SrfName(Vec<u8>),
    LibSecur(i16),
    RefLibs(Vec<u8>),
    Fonts(Vec<u8>),
    AttrTable(Vec<u8>),
    Generations(i16),
    Format(i16),
    /// FORMAT followed by a MASK list and ENDMASKS (filtered format)
    FormatFiltered(i16, Vec<Vec<u8>>),
}
#[derive(Clone, Debug, PartialEq)]
pub struct NLib {
    pub version: i16,
    pub dates: [i16; 12],
    pub name: Vec<u8>,
    pub units: (u64, u64), // IEEE bits
    pub structs: Vec<NStruct>,
    pub extras: Vec<NExtra>,
}

// ---------------------------------------------------------------- record numbers
pub const HEADER: u8 = 0x00;
pub const BGNLIB: u8 = 0x01;
pub const LIBNAME: u8 = 0x02;
pub const UNITS: u8 = 0x03;
pub const ENDLIB: u8 = 0x04;
pub const BGNSTR: u8 = 0x05;
pub const STRNAME: u8 = 0x06;
pub const ENDSTR: u8 = 0x07;
pub const BOUNDARY: u8 = 0x08;
pub const PATH: u8 = 0x09;
pub const SREF: u8 = 0x0A;
pub const AREF: u8 = 0x0B;
pub const TEXT: u8 = 0x0C;
pub const LAYER: u8 = 0x0D;
pub const DATATYPE: u8 = 0x0E;
pub const WIDTH: u8 = 0x0F;
pub const XY: u8 = 0x10;
pub const ENDEL: u8 = 0x11;
pub const SNAME: u8 = 0x12;
pub const COLROW: u8 = 0x13;
pub const NODE: u8 = 0x15;
pub const TEXTTYPE: u8 = 0x16;
pub const PRESENTATION: u8 = 0x17;
pub const STRING: u8 = 0x19;
pub const STRANS: u8 = 0x1A;
pub const MAG: u8 = 0x1B;
pub const ANGLE: u8 = 0x1C;
pub const REFLIBS: u8 = 0x1F;
pub const FONTS: u8 = 0x20;
pub const PATHTYPE: u8 = 0x21;
pub const GENERATIONS: u8 = 0x22;
pub const ATTRTABLE: u8 = 0x23;
pub const ELFLAGS: u8 = 0x26;
pub const NODETYPE: u8 = 0x2A;
pub const PROPATTR: u8 = 0x2B;
pub const PROPVALUE: u8 = 0x2C;
pub const BOX: u8 = 0x2D;
pub const BOXTYPE: u8 = 0x2E;
pub const PLEX: u8 = 0x2F;
pub const BGNEXTN: u8 = 0x30;
pub const ENDEXTN: u8 = 0x31;
pub const FORMAT: u8 = 0x36;
pub const LIBDIRSIZE: u8 = 0x39;
pub const SRFNAME: u8 = 0x3A;
pub const LIBSECUR: u8 = 0x3B;

pub const DT_NONE: u8 = 0;
pub const DT_BITS: u8 = 1;
pub const DT_I16: u8 = 2;
pub const DT_I32: u8 = 3;
pub const DT_R8: u8 = 5;
pub const DT_STR: u8 = 6;

pub fn rec_name(rt: u8) -> &'static str {
    match rt {
        0x00 => "HEADER", 0x01 => "BGNLIB", 0x02 => "LIBNAME", 0x03 => "UNITS", 0x04 => "ENDLIB", 0x05 => "BGNSTR", 0x06 => "STRNAME", 0x07 => "ENDSTR",
        0x08 => "BOUNDARY", 0x09 => "PATH", 0x0A => "SREF", 0x0B => "AREF", 0x0C => "TEXT", 0x0D => "LAYER", 0x0E => "DATATYPE", 0x0F => "WIDTH",
        0x10 => "XY", 0x11 => "ENDEL", 0x12 => "SNAME", 0x13 => "COLROW", 0x14 => "TEXTNODE", 0x15 => "NODE", 0x16 => "TEXTTYPE", 0x17 => "PRESENTATION",
        0x18 => "SPACING", 0x19 => "STRING", 0x1A => "STRANS", 0x1B => "MAG", 0x1C => "ANGLE", 0x1D => "UINTEGER", 0x1E => "USTRING", 0x1F => "REFLIBS",
        0x20 => "FONTS", 0x21 => "PATHTYPE", 0x22 => "GENERATIONS", 0x23 => "ATTRTABLE", 0x24 => "STYPTABLE", 0x25 => "STRTYPE", 0x26 => "ELFLAGS", 0x27 => "ELKEY",
        0x28 => "LINKTYPE", 0x29 => "LINKKEYS", 0x2A => "NODETYPE", 0x2B => "PROPATTR", 0x2C => "PROPVALUE", 0x2D => "BOX", 0x2E => "BOXTYPE", 0x2F => "PLEX",
        0x30 => "BGNEXTN", 0x31 => "ENDEXTN", 0x32 => "TAPENUM", 0x33 => "TAPECODE", 0x34 => "STRCLASS", 0x35 => "RESERVED", 0x36 => "FORMAT", 0x37 => "MASK",
        0x38 => "ENDMASKS", 0x39 => "LIBDIRSIZE", 0x3A => "SRFNAME", 0x3B => "LIBSECUR",
        _ => "?",
    }
}

/// The data type the specification assigns to a record type (None: not a released record)
pub fn spec_dtype(rt: u8) -> Option<u8> {
    Some(match rt {
        HEADER | BGNLIB | BGNSTR | LAYER | DATATYPE | COLROW | TEXTTYPE | PATHTYPE | GENERATIONS | NODETYPE | PROPATTR | BOXTYPE | FORMAT | LIBDIRSIZE | LIBSECUR | 0x32 | 0x33 => DT_I16,
        LIBNAME | STRNAME | SNAME | STRING | REFLIBS | FONTS | ATTRTABLE | PROPVALUE | SRFNAME | 0x37 => DT_STR,
        UNITS | MAG | ANGLE => DT_R8,
        ENDLIB | ENDSTR | BOUNDARY | PATH | SREF | AREF | TEXT | ENDEL | NODE | BOX | 0x38 => DT_NONE,
        WIDTH | XY | PLEX | BGNEXTN | ENDEXTN => DT_I32,
        PRESENTATION | STRANS | ELFLAGS => DT_BITS,
        _ => return None,
    })
}

// ---------------------------------------------------------------- exact real codec
/// Exact encoding of a finite double to the 8-byte excess-64 base-16 real.
/// None if the value is not representable (out of range / subnormal input).
pub fn real_encode(bits: u64) -> Option<u64> {
    let sign = bits >> 63;
    let e = ((bits >> 52) & 0x7ff) as i64;
    let m = bits & ((1u64 << 52) - 1);
    if e == 0 && m == 0 {
        return Some(0);
    }
    if e == 0 || e == 0x7ff {
        return None;
    }
    let m53 = (1u64 << 52) | m;
    let p = e - 1075; // value = m53 * 2^p
    let t = p + 312; // value = M * 2^(4E-312), M = m53 << s
    let s = t.rem_euclid(4);
    let ex = (t - s) / 4;
    let mant = m53 << s; // < 2^56
    if ex < 0 {
        // below 16^-65: representable only with leading zero digits, and only if no set bit is dropped
        let drop = 4 * (-ex) as u32;
        if drop >= 56 || mant & ((1u64 << drop) - 1) != 0 {
            return None;
        }
        return Some((sign << 63) | (mant >> drop));
    }
    if ex > 127 {
        return None;
    }
    Some((sign << 63) | ((ex as u64) << 56) | mant)
}
/// Exact (correctly rounded, round-half-even) decoding of an 8-byte real to IEEE bits.
pub fn real_decode(w: u64) -> u64 {
    let sign = w >> 63;
    let ex = ((w >> 56) & 0x7f) as i64;
    let mant = w & ((1u64 << 56) - 1);
    if mant == 0 {
        return sign << 63;
    }
    let b = 63 - mant.leading_zeros() as i64; // index of top set bit
    let mut q = mant;
    let mut exp2 = 4 * ex - 312; // value = q * 2^exp2
    if b > 52 {
        let sh = (b - 52) as u32;
        let rem = q & ((1u64 << sh) - 1);
        let half = 1u64 << (sh - 1);
        q >>= sh;
        if rem > half || (rem == half && (q & 1) == 1) {
            q += 1;
        }
        exp2 += sh as i64;
        if q == (1u64 << 53) {
            q >>= 1;
            exp2 += 1;
        }
    } else if b < 52 {
        let sh = (52 - b) as u32;
        q <<= sh;
        exp2 -= sh as i64;
    }
    let biased = exp2 + 52 + 1023;
    debug_assert!((1..=2046).contains(&biased));
    (sign << 63) | ((biased as u64) << 52) | (q & ((1u64 << 52) - 1))
}
pub fn real_is_normalised(w: u64) -> bool {
    let mant = w & ((1u64 << 56) - 1);
    mant == 0 || (mant >> 52) != 0
}

// ---------------------------------------------------------------- encoder
#[derive(Clone, Debug)]
pub struct Rec {
    pub rt: u8,
    pub dt: u8,
    pub payload: Vec<u8>,
    /// byte offset of the record in the stream it was scanned from
    pub at: usize,
}
fn rec(rt: u8, dt: u8, payload: Vec<u8>) -> Rec {
    Rec { rt, dt, payload, at: 0 }
}
fn r_none(rt: u8) -> Rec {
    rec(rt, DT_NONE, vec![])
}
fn r_i16s(rt: u8, v: &[i16]) -> Rec {
    rec(rt, DT_I16, v.iter().flat_map(|x| x.to_be_bytes()).collect())
}
fn r_i32s(rt: u8, v: &[i32]) -> Rec {
    rec(rt, DT_I32, v.iter().flat_map(|x| x.to_be_bytes()).collect())
}
fn r_bits(rt: u8, v: u16) -> Rec {
    rec(rt, DT_BITS, v.to_be_bytes().to_vec())
}
fn r_str(rt: u8, s: &[u8]) -> Rec {
    let mut p = s.to_vec();
    if p.len() % 2 == 1 {
        p.push(0);
    }
    rec(rt, DT_STR, p)
}
fn r_reals(rt: u8, v: &[u64]) -> Result<Rec, String> {
    let mut p = Vec::new();
    for b in v {
        let w = real_encode(*b).ok_or_else(|| format!("real {:#x} not representable", b))?;
        p.extend_from_slice(&w.to_be_bytes());
    }
    Ok(rec(rt, DT_R8, p))
}

/// Records of a library in spec order
pub fn to_records(lib: &NLib) -> Result<Vec<Rec>, String> {
    let mut out = Vec::new();
    out.push(r_i16s(HEADER, &[lib.version]));
    out.push(r_i16s(BGNLIB, &lib.dates));
    for x in &lib.extras {
        match x {
            NExtra::LibDirSize(v) => out.push(r_i16s(LIBDIRSIZE, &[*v])),
            NExtra::SrfName(s) => out.push(r_str(SRFNAME, s)),
            NExtra::LibSecur(v) => out.push(r_i16s(LIBSECUR, &[*v, 0, 0])),
            _ => {}
        }
    }
    out.push(r_str(LIBNAME, &lib.name));
    for x in &lib.extras {
        match x {
            NExtra::RefLibs(s) => out.push(r_str(REFLIBS, s)),
            NExtra::Fonts(s) => out.push(r_str(FONTS, s)),
            NExtra::AttrTable(s) => out.push(r_str(ATTRTABLE, s)),
            NExtra::Generations(v) => out.push(r_i16s(GENERATIONS, &[*v])),
            NExtra::Format(v) => out.push(r_i16s(FORMAT, &[*v])),
            NExtra::FormatFiltered(v, masks) => {
                out.push(r_i16s(FORMAT, &[*v]));
                for m in masks {
                    out.push(r_str(0x37, m));
                }
                out.push(r_none(0x38));
            }
            _ => {}
        }
    }
    out.push(r_reals(UNITS, &[lib.units.0, lib.units.1])?);
    for s in &lib.structs {
        out.push(r_i16s(BGNSTR, &s.dates));
        out.push(r_str(STRNAME, &s.name));
        for e in &s.elems {
            elem_records(e, &mut out)?;
        }
        out.push(r_none(ENDSTR));
    }
    out.push(r_none(ENDLIB));
    Ok(out)
}
fn elem_records(e: &NElem, out: &mut Vec<Rec>) -> Result<(), String> {
    let head = match e.kind {
        NKind::Boundary => BOUNDARY,
        NKind::Path => PATH,
        NKind::Sref => SREF,
        NKind::Aref => AREF,
        NKind::Text => TEXT,
        NKind::Node => NODE,
        NKind::Box => BOX,
    };
    out.push(r_none(head));
    if let Some(f) = e.elflags {
        out.push(r_bits(ELFLAGS, f));
    }
    if let Some(p) = e.plex {
        out.push(r_i32s(PLEX, &[p]));
    }
    let strans = |out: &mut Vec<Rec>| -> Result<(), String> {
        if let Some(ref s) = e.strans {
            out.push(r_bits(STRANS, s.flags));
            if let Some(m) = s.mag {
                out.push(r_reals(MAG, &[m])?);
            }
            if let Some(a) = s.angle {
                out.push(r_reals(ANGLE, &[a])?);
            }
        }
        Ok(())
    };
    let need = |o: Option<i16>, what: &str| o.ok_or_else(|| format!("model lacks {}", what));
    match e.kind {
        NKind::Boundary => {
            out.push(r_i16s(LAYER, &[need(e.layer, "LAYER")?]));
            out.push(r_i16s(DATATYPE, &[need(e.xtype, "DATATYPE")?]));
            out.push(r_i32s(XY, &e.xy));
        }
        NKind::Path => {
            out.push(r_i16s(LAYER, &[need(e.layer, "LAYER")?]));
            out.push(r_i16s(DATATYPE, &[need(e.xtype, "DATATYPE")?]));
            if let Some(v) = e.pathtype {
                out.push(r_i16s(PATHTYPE, &[v]));
            }
            if let Some(v) = e.width {
                out.push(r_i32s(WIDTH, &[v]));
            }
            if let Some(v) = e.bgnextn {
                out.push(r_i32s(BGNEXTN, &[v]));
            }
            if let Some(v) = e.endextn {
                out.push(r_i32s(ENDEXTN, &[v]));
            }
            out.push(r_i32s(XY, &e.xy));
        }
        NKind::Sref => {
            out.push(r_str(SNAME, e.sname.as_ref().ok_or("model lacks SNAME")?));
            strans(out)?;
            out.push(r_i32s(XY, &e.xy));
        }
        NKind::Aref => {
            out.push(r_str(SNAME, e.sname.as_ref().ok_or("model lacks SNAME")?));
            strans(out)?;
            let (c, r) = e.colrow.ok_or("model lacks COLROW")?;
            out.push(r_i16s(COLROW, &[c, r]));
            out.push(r_i32s(XY, &e.xy));
        }
        NKind::Text => {
            out.push(r_i16s(LAYER, &[need(e.layer, "LAYER")?]));
            out.push(r_i16s(TEXTTYPE, &[need(e.xtype, "TEXTTYPE")?]));
            if let Some(v) = e.presentation {
                out.push(r_bits(PRESENTATION, v));
            }
            if let Some(v) = e.pathtype {
                out.push(r_i16s(PATHTYPE, &[v]));
            }
            if let Some(v) = e.width {
                out.push(r_i32s(WIDTH, &[v]));
            }
            strans(out)?;
            out.push(r_i32s(XY, &e.xy));
            out.push(r_str(STRING, e.string.as_ref().ok_or("model lacks STRING")?));
        }
        NKind::Node => {
            out.push(r_i16s(LAYER, &[need(e.layer, "LAYER")?]));
            out.push(r_i16s(NODETYPE, &[need(e.xtype, "NODETYPE")?]));
            out.push(r_i32s(XY, &e.xy));
        }
        NKind::Box => {
            out.push(r_i16s(LAYER, &[need(e.layer, "LAYER")?]));
            out.push(r_i16s(BOXTYPE, &[need(e.xtype, "BOXTYPE")?]));
            out.push(r_i32s(XY, &e.xy));
        }
    }
    for (a, v) in &e.props {
        out.push(r_i16s(PROPATTR, &[*a]));
        out.push(r_str(PROPVALUE, v));
    }
    out.push(r_none(ENDEL));
    Ok(())
}
pub fn records_to_bytes(recs: &[Rec]) -> Result<Vec<u8>, String> {
    let mut out = Vec::new();
    for r in recs {
        let total = r.payload.len() + 4;
        if total > 0xFFFF || total % 2 != 0 {
            return Err(format!("record {} payload {} does not fit", rec_name(r.rt), r.payload.len()));
        }
        out.extend_from_slice(&(total as u16).to_be_bytes());
        out.push(r.rt);
        out.push(r.dt);
        out.extend_from_slice(&r.payload);
    }
    Ok(out)
}
pub fn encode(lib: &NLib) -> Result<Vec<u8>, String> {
    records_to_bytes(&to_records(lib)?)
}

// ---------------------------------------------------------------- framing scanner
/// Split a stream into records. Checks: length even, >= 4, within the stream;
/// stops after ENDLIB (anything after it is padding). `strict_tail` demands that
/// nothing follows ENDLIB.
pub fn scan(bytes: &[u8], strict_tail: bool) -> Result<Vec<Rec>, String> {
    let mut recs = Vec::new();
    let mut p = 0usize;
    loop {
        if p + 4 > bytes.len() {
            return Err(format!("framing: stream ends at {} inside a record header, before ENDLIB", p));
        }
        let len = u16::from_be_bytes([bytes[p], bytes[p + 1]]) as usize;
        if len < 4 {
            return Err(format!("framing: record at {} has length {} < 4", p, len));
        }
        if len % 2 != 0 {
            return Err(format!("framing: record at {} has odd length {}", p, len));
        }
        if p + len > bytes.len() {
            return Err(format!("framing: record at {} (length {}) runs past the end of the stream ({})", p, len, bytes.len()));
        }
        let rt = bytes[p + 2];
        let dt = bytes[p + 3];
        recs.push(Rec { rt, dt, payload: bytes[p + 4..p + len].to_vec(), at: p });
        p += len;
        if rt == ENDLIB {
            break;
        }
    }
    if strict_tail && p != bytes.len() {
        return Err(format!("framing: {} bytes follow ENDLIB", bytes.len() - p));
    }
    Ok(recs)
}

// ---------------------------------------------------------------- recogniser / decoder
struct P<'a> {
    recs: &'a [Rec],
    i: usize,
}
impl<'a> P<'a> {
    fn peek(&self) -> Option<u8> {
        self.recs.get(self.i).map(|r| r.rt)
    }
    fn err<T>(&self, what: &str) -> Result<T, String> {
        match self.recs.get(self.i) {
            Some(r) => Err(format!("grammar: {} but found {} (record #{} at byte {})", what, rec_name(r.rt), self.i, r.at)),
            None => Err(format!("grammar: {} but the record list ended", what)),
        }
    }
    /// consume a record of type rt, checking data type and payload length
    fn take(&mut self, rt: u8, what: &str) -> Result<&'a Rec, String> {
        match self.recs.get(self.i) {
            Some(r) if r.rt == rt => {
                check_shape(r)?;
                self.i += 1;
                Ok(r)
            }
            _ => self.err(&format!("expected {}", what)),
        }
    }
    fn opt(&mut self, rt: u8) -> Result<Option<&'a Rec>, String> {
        if self.peek() == Some(rt) {
            Ok(Some(self.take(rt, rec_name(rt))?))
        } else {
            Ok(None)
        }
    }
}
fn check_shape(r: &Rec) -> Result<(), String> {
    let want = spec_dtype(r.rt).ok_or_else(|| format!("record type {:#04x} at byte {} is not a released GDSII record", r.rt, r.at))?;
    if r.dt != want {
        return Err(format!("datatype: {} at byte {} has data type {} but the specification assigns {}", rec_name(r.rt), r.at, r.dt, want));
    }
    let n = r.payload.len();
    let ok = match r.rt {
        HEADER | LAYER | DATATYPE | TEXTTYPE | PATHTYPE | GENERATIONS | NODETYPE | PROPATTR | BOXTYPE | FORMAT | LIBDIRSIZE => n == 2,
        LIBSECUR => n >= 2 && n % 6 == 0,
        BGNLIB | BGNSTR => n == 24,
        COLROW => n == 4,
        UNITS => n == 16,
        MAG | ANGLE => n == 8,
        WIDTH | PLEX | BGNEXTN | ENDEXTN => n == 4,
        XY => n % 8 == 0,
        PRESENTATION | STRANS | ELFLAGS => n == 2,
        _ => match want {
            DT_NONE => n == 0,
            DT_STR => n % 2 == 0,
            _ => true,
        },
    };
    if !ok {
        return Err(format!("length: {} at byte {} has payload length {}", rec_name(r.rt), r.at, n));
    }
    Ok(())
}
fn i16s(r: &Rec) -> Vec<i16> {
    r.payload.chunks(2).map(|c| i16::from_be_bytes([c[0], c[1]])).collect()
}
fn i32s(r: &Rec) -> Vec<i32> {
    r.payload.chunks(4).map(|c| i32::from_be_bytes([c[0], c[1], c[2], c[3]])).collect()
}
fn bits(r: &Rec) -> u16 {
    u16::from_be_bytes([r.payload[0], r.payload[1]])
}
fn reals(r: &Rec) -> Vec<u64> {
    r.payload.chunks(8).map(|c| real_decode(u64::from_be_bytes([c[0], c[1], c[2], c[3], c[4], c[5], c[6], c[7]]))).collect()
}
/// String payload: one trailing NUL is padding when present
fn strbytes(r: &Rec) -> Vec<u8> {
    let mut v = r.payload.clone();
    if v.last() == Some(&0) {
        v.pop();
    }
    v
}

#[derive(Default, Debug, Clone)]
pub struct DecodeProbes {
    pub unnormalised_reals: u64,
    pub records: u64,
    pub padded_strings: u64,
}

/// Decode records (as produced by `scan`) into the neutral model, enforcing the spec BNF.
pub fn decode(recs: &[Rec], probes: &mut DecodeProbes) -> Result<NLib, String> {
    probes.records += recs.len() as u64;
    for r in recs {
        if r.dt == DT_R8 {
            for c in r.payload.chunks(8) {
                if c.len() == 8 && !real_is_normalised(u64::from_be_bytes([c[0], c[1], c[2], c[3], c[4], c[5], c[6], c[7]])) {
                    probes.unnormalised_reals += 1;
                }
            }
        }
        if r.dt == DT_STR && r.payload.last() == Some(&0) {
            probes.padded_strings += 1;
        }
    }
    let mut p = P { recs, i: 0 };
    let version = i16s(p.take(HEADER, "HEADER")?)[0];
    let d = i16s(p.take(BGNLIB, "BGNLIB")?);
    let mut dates = [0i16; 12];
    dates.copy_from_slice(&d);
    let mut extras = Vec::new();
    if let Some(r) = p.opt(LIBDIRSIZE)? {
        extras.push(NExtra::LibDirSize(i16s(r)[0]));
    }
    if let Some(r) = p.opt(SRFNAME)? {
        extras.push(NExtra::SrfName(strbytes(r)));
    }
    if let Some(r) = p.opt(LIBSECUR)? {
        extras.push(NExtra::LibSecur(i16s(r)[0]));
    }
    let name = strbytes(p.take(LIBNAME, "LIBNAME")?);
    if let Some(r) = p.opt(REFLIBS)? {
        extras.push(NExtra::RefLibs(strbytes(r)));
    }
    if let Some(r) = p.opt(FONTS)? {
        extras.push(NExtra::Fonts(strbytes(r)));
    }
    if let Some(r) = p.opt(ATTRTABLE)? {
        extras.push(NExtra::AttrTable(strbytes(r)));
    }
    if let Some(r) = p.opt(GENERATIONS)? {
        extras.push(NExtra::Generations(i16s(r)[0]));
    }
    if let Some(r) = p.opt(FORMAT)? {
        let f = i16s(r)[0];
        if p.peek() == Some(0x37) {
            let mut masks = Vec::new();
            while p.peek() == Some(0x37) {
                masks.push(strbytes(p.take(0x37, "MASK")?));
            }
            p.take(0x38, "ENDMASKS")?;
            extras.push(NExtra::FormatFiltered(f, masks));
        } else {
            extras.push(NExtra::Format(f));
        }
    }
    let u = reals(p.take(UNITS, "UNITS")?);
    let mut structs = Vec::new();
    while p.peek() == Some(BGNSTR) {
        let d = i16s(p.take(BGNSTR, "BGNSTR")?);
        let mut sd = [0i16; 12];
        sd.copy_from_slice(&d);
        let sname = strbytes(p.take(STRNAME, "STRNAME")?);
        let mut elems = Vec::new();
        loop {
            match p.peek() {
                Some(ENDSTR) => {
                    p.take(ENDSTR, "ENDSTR")?;
                    break;
                }
                Some(BOUNDARY) | Some(PATH) | Some(SREF) | Some(AREF) | Some(TEXT) | Some(NODE) | Some(BOX) => elems.push(element(&mut p)?),
                _ => return p.err("expected an element or ENDSTR"),
            }
        }
        structs.push(NStruct { dates: sd, name: sname, elems });
    }
    p.take(ENDLIB, "BGNSTR or ENDLIB")?;
    if p.i != recs.len() {
        return p.err("expected nothing after ENDLIB");
    }
    Ok(NLib { version, dates, name, units: (u[0], u[1]), structs, extras })
}
fn strans(p: &mut P) -> Result<Option<NStrans>, String> {
    match p.opt(STRANS)? {
        None => Ok(None),
        Some(r) => {
            let flags = bits(r);
            let mag = p.opt(MAG)?.map(|r| reals(r)[0]);
            let angle = p.opt(ANGLE)?.map(|r| reals(r)[0]);
            Ok(Some(NStrans { flags, mag, angle }))
        }
    }
}
fn element(p: &mut P) -> Result<NElem, String> {
    let head = p.peek().unwrap();
    let kind = match head {
        BOUNDARY => NKind::Boundary,
        PATH => NKind::Path,
        SREF => NKind::Sref,
        AREF => NKind::Aref,
        TEXT => NKind::Text,
        NODE => NKind::Node,
        _ => NKind::Box,
    };
    p.take(head, "element head")?;
    let mut e = NElem::new(kind);
    e.elflags = p.opt(ELFLAGS)?.map(bits);
    e.plex = p.opt(PLEX)?.map(|r| i32s(r)[0]);
    match kind {
        NKind::Boundary => {
            e.layer = Some(i16s(p.take(LAYER, "LAYER")?)[0]);
            e.xtype = Some(i16s(p.take(DATATYPE, "DATATYPE")?)[0]);
            e.xy = i32s(p.take(XY, "XY")?);
        }
        NKind::Path => {
            e.layer = Some(i16s(p.take(LAYER, "LAYER")?)[0]);
            e.xtype = Some(i16s(p.take(DATATYPE, "DATATYPE")?)[0]);
            e.pathtype = p.opt(PATHTYPE)?.map(|r| i16s(r)[0]);
            e.width = p.opt(WIDTH)?.map(|r| i32s(r)[0]);
            e.bgnextn = p.opt(BGNEXTN)?.map(|r| i32s(r)[0]);
            e.endextn = p.opt(ENDEXTN)?.map(|r| i32s(r)[0]);
            e.xy = i32s(p.take(XY, "XY")?);
        }
        NKind::Sref => {
            e.sname = Some(strbytes(p.take(SNAME, "SNAME")?));
            e.strans = strans(p)?;
            e.xy = i32s(p.take(XY, "XY")?);
            if e.xy.len() != 2 {
                return Err(format!("length: SREF XY has {} coordinates, the specification says one point", e.xy.len()));
            }
        }
        NKind::Aref => {
            e.sname = Some(strbytes(p.take(SNAME, "SNAME")?));
            e.strans = strans(p)?;
            let cr = i16s(p.take(COLROW, "COLROW")?);
            e.colrow = Some((cr[0], cr[1]));
            e.xy = i32s(p.take(XY, "XY")?);
            if e.xy.len() != 6 {
                return Err(format!("length: AREF XY has {} coordinates, the specification says three points", e.xy.len()));
            }
        }
        NKind::Text => {
            e.layer = Some(i16s(p.take(LAYER, "LAYER")?)[0]);
            e.xtype = Some(i16s(p.take(TEXTTYPE, "TEXTTYPE")?)[0]);
            e.presentation = p.opt(PRESENTATION)?.map(bits);
            e.pathtype = p.opt(PATHTYPE)?.map(|r| i16s(r)[0]);
            e.width = p.opt(WIDTH)?.map(|r| i32s(r)[0]);
            e.strans = strans(p)?;
            e.xy = i32s(p.take(XY, "XY")?);
            if e.xy.len() != 2 {
                return Err(format!("length: TEXT XY has {} coordinates, the specification says one point", e.xy.len()));
            }
            e.string = Some(strbytes(p.take(STRING, "STRING")?));
        }
        NKind::Node => {
            e.layer = Some(i16s(p.take(LAYER, "LAYER")?)[0]);
            e.xtype = Some(i16s(p.take(NODETYPE, "NODETYPE")?)[0]);
            e.xy = i32s(p.take(XY, "XY")?);
        }
        NKind::Box => {
            e.layer = Some(i16s(p.take(LAYER, "LAYER")?)[0]);
            e.xtype = Some(i16s(p.take(BOXTYPE, "BOXTYPE")?)[0]);
            e.xy = i32s(p.take(XY, "XY")?);
            if e.xy.len() != 10 {
                return Err(format!("length: BOX XY has {} coordinates, the specification says five points", e.xy.len()));
            }
        }
    }
    while p.peek() == Some(PROPATTR) {
        let a = i16s(p.take(PROPATTR, "PROPATTR")?)[0];
        let v = strbytes(p.take(PROPVALUE, "PROPVALUE")?);
        e.props.push((a, v));
    }
    p.take(ENDEL, "PROPATTR or ENDEL")?;
    Ok(e)
}

/// First differing path between two models (None if equal)
pub fn diff(a: &NLib, b: &NLib) -> Option<String> {
    if a.version != b.version {
        return Some("HEADER.version".into());
    }
    if a.dates != b.dates {
        return Some("BGNLIB.dates".into());
    }
    if a.name != b.name {
        return Some("LIBNAME".into());
    }
    if a.units != b.units {
        return Some("UNITS".into());
    }
    if a.extras != b.extras {
        return Some("library-level optional records".into());
    }
    if a.structs.len() != b.structs.len() {
        return Some("structs.len".into());
    }
    for (x, y) in a.structs.iter().zip(b.structs.iter()) {
        if x.dates != y.dates {
            return Some("BGNSTR.dates".into());
        }
        if x.name != y.name {
            return Some("STRNAME".into());
        }
        if x.elems.len() != y.elems.len() {
            return Some("struct.elems.len".into());
        }
        for (e, f) in x.elems.iter().zip(y.elems.iter()) {
            if e.kind != f.kind {
                return Some("element kind".into());
            }
            let k = format!("{:?}", e.kind);
            macro_rules! c {
                ($f:ident, $n:expr) => {
                    if e.$f != f.$f {
                        return Some(format!("{}.{}", k, $n));
                    }
                };
            }
            c!(elflags, "ELFLAGS");
            c!(plex, "PLEX");
            c!(layer, "LAYER");
            c!(xtype, "xTYPE");
            c!(pathtype, "PATHTYPE");
            c!(width, "WIDTH");
            c!(bgnextn, "BGNEXTN");
            c!(endextn, "ENDEXTN");
            c!(presentation, "PRESENTATION");
            c!(sname, "SNAME");
            match (&e.strans, &f.strans) {
                (None, None) => {}
                (Some(s), Some(t)) => {
                    if s.flags != t.flags {
                        return Some(format!("{}.STRANS.flags", k));
                    }
                    if s.mag != t.mag {
                        return Some(format!("{}.MAG", k));
                    }
                    if s.angle != t.angle {
                        return Some(format!("{}.ANGLE", k));
                    }
                }
                _ => return Some(format!("{}.STRANS presence", k)),
            }
            c!(colrow, "COLROW");
            c!(xy, "XY");
            c!(string, "STRING");
            c!(props, "properties");
        }
    }
    None
}

#[cfg(test)]
mod tests {
    use super::*;
    #[test]
    fn real_known_values() {
        // 1.0 = 0x4110000000000000 ; 1e-3 and 1e-9 as in every sky130 GDS file
        assert_eq!(real_encode(1.0f64.to_bits()), Some(0x4110_0000_0000_0000));
        assert_eq!(real_encode(1e-3f64.to_bits()), Some(0x3E41_8937_4BC6_A7F0)); // 53-bit value, zero-padded
        assert_eq!(real_decode(0x4110_0000_0000_0000), 1.0f64.to_bits());
        assert_eq!(real_decode(0x3E41_8937_4BC6_A7EF), 0.001f64.to_bits());
        assert_eq!(real_decode(0x3944_B82F_A09B_5A54), 1e-9f64.to_bits());
    }
}
