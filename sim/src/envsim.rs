//! Environment-variable seam. None of the properties mentions the process environment, so they must hold
//! whatever it contains. `std::env::var` reaches the environment through libc's `getenv`; defining the
//! symbol here (same mechanism as the `getrandom` seam) lets the simulator answer for the variables the
//! code under test can ask about, and pass every other query through to the real libc function.
//!
//! Which variables, which values: a dictionary built at start-up from /repo's current sources. A file that
//! reads the environment (`env::var`, `var_os`) contributes the names it asks for and every short string
//! literal it contains as candidate values (that is where a value the code compares against has to be
//! spelled), next to a few generic values. On a tree that never reads the environment the dictionary is
//! empty and the seam is inert. The answer for (run, name) is a pure function of the run seed, so a replay
//! sees the same environment.

use std::collections::BTreeMap;
use std::ffi::{CStr, CString};
use std::os::raw::c_char;
use std::sync::atomic::{AtomicU64, AtomicUsize, Ordering};
use std::sync::OnceLock;

pub struct Dict {
    /// name -> candidate values
    pub vars: BTreeMap<Vec<u8>, Vec<CString>>,
    pub files_reading_env: Vec<String>,
}
static DICT: OnceLock<Dict> = OnceLock::new();
static SIMULATED: AtomicU64 = AtomicU64::new(0);
static REAL: AtomicUsize = AtomicUsize::new(0);
thread_local! {
    static ACTIVE: std::cell::Cell<u64> = const { std::cell::Cell::new(0) };
}

const GENERIC: [&str; 14] = ["", "0", "1", "true", "false", "yes", "no", "on", "off", "2", "-1", "64", "999999999999", "x"];

fn literals(src: &str) -> Vec<String> {
    let b = src.as_bytes();
    let mut out = Vec::new();
    let mut i = 0;
    while i < b.len() {
        match b[i] {
            b'/' if i + 1 < b.len() && b[i + 1] == b'/' => {
                while i < b.len() && b[i] != b'\n' {
                    i += 1;
                }
            }
            b'\'' => {
                // char literal or lifetime: skip a quoted character if it closes within 4 bytes
                if i + 2 < b.len() && b[i + 1] == b'\\' {
                    i += 3;
                } else if i + 2 < b.len() && b[i + 2] == b'\'' {
                    i += 3;
                    continue;
                }
                i += 1;
            }
            b'"' => {
                let s = i + 1;
                let mut j = s;
                while j < b.len() && b[j] != b'"' {
                    if b[j] == b'\\' {
                        j += 1;
                    }
                    j += 1;
                }
                if j <= b.len() {
                    if let Ok(t) = std::str::from_utf8(&b[s..j.min(b.len())]) {
                        if !t.contains('\\') && !t.contains('\n') && t.len() <= 40 {
                            out.push(t.to_string());
                        }
                    }
                }
                i = j + 1;
            }
            _ => i += 1,
        }
    }
    out
}

fn walk(dir: &std::path::Path, out: &mut Vec<std::path::PathBuf>) {
    if let Ok(rd) = std::fs::read_dir(dir) {
        let mut es: Vec<_> = rd.flatten().map(|e| e.path()).collect();
        es.sort();
        for p in es {
            let name = p.file_name().map(|n| n.to_string_lossy().to_string()).unwrap_or_default();
            if p.is_dir() {
                if name != "target" && name != "tests" && !name.starts_with('.') {
                    walk(&p, out);
                }
            } else if name.ends_with(".rs") && name != "tests.rs" && name != "verif.rs" {
                out.push(p);
            }
        }
    }
}

/// Build the dictionary from /repo's working tree (once per process).
pub fn dict() -> &'static Dict {
    DICT.get_or_init(|| {
        let mut files = Vec::new();
        if let Ok(rd) = std::fs::read_dir("/repo") {
            let mut ds: Vec<_> = rd.flatten().map(|e| e.path()).collect();
            ds.sort();
            for d in ds {
                if d.join("src").is_dir() {
                    walk(&d.join("src"), &mut files);
                }
            }
        }
        let mut vars: BTreeMap<Vec<u8>, Vec<CString>> = BTreeMap::new();
        let mut readers = Vec::new();
        for f in files {
            let Ok(src) = std::fs::read_to_string(&f) else { continue };
            if !(src.contains("env::var") || src.contains("var_os(") || src.contains("env::vars")) {
                continue;
            }
            readers.push(f.to_string_lossy().to_string());
            let lits = literals(&src);
            let is_name = |s: &str| s.len() >= 3 && s.chars().all(|c| c.is_ascii_uppercase() || c.is_ascii_digit() || c == '_') && s.chars().next().map_or(false, |c| c.is_ascii_uppercase());
            let mut values: Vec<String> = GENERIC.iter().map(|s| s.to_string()).collect();
            for l in &lits {
                if !is_name(l) {
                    for v in [l.clone(), l.to_uppercase(), l.to_lowercase()] {
                        if !values.contains(&v) {
                            values.push(v);
                        }
                    }
                }
            }
            for l in &lits {
                if is_name(l) {
                    let e = vars.entry(l.as_bytes().to_vec()).or_default();
                    for v in &values {
                        if let Ok(c) = CString::new(v.as_str()) {
                            if !e.contains(&c) {
                                e.push(c);
                            }
                        }
                    }
                }
            }
        }
        Dict { vars, files_reading_env: readers }
    })
}

/// Activate the simulated environment for the current thread (seed 0 = off).
pub fn begin(seed: u64) {
    let _ = dict();
    ACTIVE.with(|c| c.set(seed | 1));
}
pub fn end() {
    ACTIVE.with(|c| c.set(0));
}
pub fn current() -> u64 {
    ACTIVE.with(|c| c.get())
}
pub fn simulated_reads() -> u64 {
    SIMULATED.load(Ordering::Relaxed)
}

unsafe fn real_getenv(name: *const c_char) -> *mut c_char {
    let mut f = REAL.load(Ordering::Relaxed);
    if f == 0 {
        f = libc::dlsym(libc::RTLD_NEXT, b"getenv\0".as_ptr() as *const c_char) as usize;
        REAL.store(f, Ordering::Relaxed);
    }
    if f == 0 {
        return std::ptr::null_mut();
    }
    let g: unsafe extern "C" fn(*const c_char) -> *mut c_char = std::mem::transmute(f);
    g(name)
}

#[cfg(not(miri))]
#[no_mangle]
pub unsafe extern "C" fn getenv(name: *const c_char) -> *mut c_char {
    if name.is_null() {
        return std::ptr::null_mut();
    }
    let seed = ACTIVE.try_with(|c| c.get()).unwrap_or(0);
    if seed != 0 {
        if let Some(d) = DICT.get() {
            if !d.vars.is_empty() {
                let n = CStr::from_ptr(name).to_bytes();
                if let Some(vals) = d.vars.get(n) {
                    SIMULATED.fetch_add(1, Ordering::Relaxed);
                    let mut x = seed ^ crate::rng::fnv64(n);
                    let r = crate::rng::splitmix64(&mut x);
                    // one run in three leaves the variable unset
                    if r % 3 == 0 || vals.is_empty() {
                        return std::ptr::null_mut();
                    }
                    let k = (crate::rng::splitmix64(&mut x) % vals.len() as u64) as usize;
                    return vals[k].as_ptr() as *mut c_char;
                }
            }
        }
    }
    real_getenv(name)
}
