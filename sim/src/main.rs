//! l21sim — deterministic simulation with fault injection for Layout21.
//!
//!   l21sim check <ID> [--tier quick|thorough] [--seed N] [--jobs J] [--runs R] [--secs S]
//!   l21sim replay <file>
//!   l21sim selftest determinism [--runs R]
//!   l21sim worker ...            (internal)

mod checks;
mod engine;
mod envsim;
mod gdsref;
mod gen_conv;
mod gen_gds;
mod gen_lef;
mod gen_nlib;
mod gen_tetris;
mod hashseed;
mod rng;
mod selftest_ref;
mod simio;

use engine::*;
use std::path::PathBuf;

fn arg<'a>(args: &'a [String], name: &str) -> Option<&'a str> {
    args.iter().position(|a| a == name).and_then(|i| args.get(i + 1)).map(|s| s.as_str())
}
fn tier_of(args: &[String]) -> Tier {
    let t = arg(args, "--tier").map(|s| s.to_string()).or_else(|| std::env::var("VERIF_TIER").ok()).unwrap_or_else(|| "quick".into());
    if t == "thorough" {
        Tier::Thorough
    } else {
        Tier::Quick
    }
}
fn seed_of(args: &[String]) -> u64 {
    arg(args, "--seed").and_then(|s| s.parse().ok()).or_else(|| std::env::var("VERIF_SEED").ok().and_then(|s| s.trim().parse().ok())).unwrap_or(DEFAULT_SEED)
}
fn jobs_of(args: &[String]) -> u64 {
    arg(args, "--jobs").and_then(|s| s.parse().ok()).or_else(|| std::env::var("VERIF_JOBS").ok().and_then(|s| s.parse().ok())).unwrap_or_else(|| std::thread::available_parallelism().map(|n| n.get() as u64).unwrap_or(4).min(16))
}

/// Failing allocations as a fault kind: the reader checks (C10, C11) run their workers under an 8 GiB address-space
/// limit. The largest inputs are 9 MB (C10) and 1 MiB (C11), so memory proportional to the input stays far below it;
/// a reservation computed from a damaged length or count field does not, `alloc` fails, the process aborts and the
/// supervisor reports the dead worker as a crash with the offending sub-case.
fn limit_address_space(id: &str) {
    if id == "C10" || id == "C11" {
        let lim = libc::rlimit { rlim_cur: 8 << 30, rlim_max: 8 << 30 };
        unsafe {
            libc::setrlimit(libc::RLIMIT_AS, &lim);
        }
    }
}

fn main() {
    let args: Vec<String> = std::env::args().collect();
    if args.len() < 2 {
        eprintln!("usage: l21sim check|replay|selftest ...");
        std::process::exit(2);
    }
    let code = match args[1].as_str() {
        "check" => {
            let id = args.get(2).cloned().unwrap_or_default();
            match checks::by_id(&id) {
                None => {
                    eprintln!("unknown check {}", id);
                    2
                }
                Some(c) => {
                    let r = supervise(
                        c.as_ref(),
                        SupArgs { first: arg(&args, "--first").and_then(|s| s.parse().ok()).unwrap_or(0), tier: tier_of(&args), master: seed_of(&args), jobs: jobs_of(&args), runs: arg(&args, "--runs").and_then(|s| s.parse().ok()), secs: arg(&args, "--secs").and_then(|s| s.parse().ok()), write_evidence: !args.iter().any(|a| a == "--no-evidence") && std::env::var("VERIF_NO_EVIDENCE").is_err(), quiet: false },
                    );
                    r.exit
                }
            }
        }
        "worker" => {
            let id = args.get(2).cloned().unwrap_or_default();
            let c = checks::by_id(&id).expect("check id");
            limit_address_space(&id);
            let g = |n: &str| arg(&args, n).and_then(|s| s.parse::<u64>().ok()).unwrap_or(0);
            let skip: Vec<u64> = arg(&args, "--skip").map(|s| s.split(',').filter_map(|x| x.parse().ok()).collect()).unwrap_or_default();
            worker(
                c.as_ref(),
                WorkerArgs { first: g("--first"), tier: tier_of(&args), master: seed_of(&args), shard: g("--shard"), of: g("--of").max(1), runs: g("--runs"), batch: g("--batch").max(1), from_batch: g("--from-batch"), skip, out: PathBuf::from(arg(&args, "--out").unwrap()), hb: PathBuf::from(arg(&args, "--hb").unwrap()), deadline_s: g("--deadline") },
            )
        }
        "replay" => {
            let path = args.get(2).cloned().unwrap_or_default();
            match std::fs::read_to_string(&path).ok().and_then(|s| serde_json::from_str::<serde_json::Value>(&s).ok()) {
                None => {
                    eprintln!("cannot read replay file {}", path);
                    2
                }
                Some(v) => {
                    let id = v["property"].as_str().unwrap_or("").to_string();
                    match checks::by_id(&id) {
                        None => {
                            eprintln!("unknown property {} in replay file", id);
                            2
                        }
                        Some(c) => {
                            if args.iter().any(|a| a == "--inner") {
                                limit_address_space(&id);
                                replay(c.as_ref(), &v)
                            } else {
                                replay_contained(c.as_ref(), &v, &path)
                            }
                        }
                    }
                }
            }
        }
        "selftest" => selftest(&args),
        "c20-child" => checks::c20::child_main(&args),
        _ => {
            eprintln!("unknown command");
            2
        }
    };
    std::process::exit(code);
}

/// determinism: every check, same seeds, two job counts, separate processes: digests must agree
fn selftest(args: &[String]) -> i32 {
    let what = args.get(2).map(|s| s.as_str()).unwrap_or("determinism");
    match what {
        "determinism" => {
            let runs: u64 = arg(args, "--runs").and_then(|s| s.parse().ok()).unwrap_or(2000);
            let only = arg(args, "--only");
            let mut bad = 0;
            for c in checks::all() {
                if let Some(o) = only {
                    if o != c.id() {
                        continue;
                    }
                }
                let mut digs = Vec::new();
                for (jobs, rep) in [(1u64, 0), (16, 0), (16, 1), (5, 0)] {
                    let r = supervise(c.as_ref(), SupArgs { first: 0, tier: Tier::Quick, master: seed_of(args), jobs, runs: Some(runs), secs: Some(600), write_evidence: false, quiet: true });
                    println!("selftest determinism: {} jobs={} rep={} evals={} digest={} exit={}", c.id(), jobs, rep, r.evals, r.digest, r.exit);
                    if r.exit == 2 {
                        bad += 1;
                    }
                    digs.push((r.digest, r.evals));
                }
                if digs.iter().any(|d| *d != digs[0]) {
                    println!("selftest determinism: {} NONDETERMINISTIC HARNESS", c.id());
                    bad += 1;
                }
            }
            if bad > 0 {
                2
            } else {
                println!("selftest determinism: ok");
                0
            }
        }
        "refcodec" => selftest_ref::run(),
        "hashseed" => {
            let a = hashseed::with_hash_seed(1, hashseed::order_probe).unwrap();
            let a2 = hashseed::with_hash_seed(1, hashseed::order_probe).unwrap();
            let b = hashseed::with_hash_seed(2, hashseed::order_probe).unwrap();
            let c = hashseed::with_hash_seed(3, hashseed::order_probe).unwrap();
            println!("seed1 {:?}\nseed1 {:?}\nseed2 {:?}\nseed3 {:?}\ngetrandom calls {}", a, a2, b, c, hashseed::calls());
            if a == a2 && (a != b || a != c) && hashseed::calls() > 0 {
                println!("selftest hashseed: ok");
                0
            } else {
                println!("selftest hashseed: SEAM NOT EFFECTIVE");
                2
            }
        }
        _ => {
            eprintln!("unknown selftest");
            2
        }
    }
}

