//! G-gds: tape-driven generator of `gds21::GdsLibrary` values (swarm style).

use crate::rng::Tape;
use gds21::*;

#[derive(Clone, Copy, Debug, PartialEq, Eq)]
pub enum StrProfile {
    /// GDS-oriented: ASCII, some UTF-8, interior NUL (rare), lengths 0..long
    Gds,
    /// markup-oriented: characters special in JSON / YAML
    Markup,
    /// plain identifiers only
    Ident,
}

#[derive(Clone, Debug)]
pub struct GdsSwarm {
    pub kinds: [bool; 7],
    /// probability (per-mille) that an optional field is present
    pub opt_pm: u64,
    pub max_structs: u64,
    pub max_elems: u64,
    pub max_props: u64,
    pub max_pts: u64,
    pub profile: StrProfile,
    pub utf8: bool,
    pub nul: bool,
    pub empty_strings: bool,
    pub long_strings: bool,
    pub oversize: bool,
    pub full_coords: bool,
    pub hard_reals: bool,
}

impl GdsSwarm {
    pub fn draw(t: &mut Tape, profile: StrProfile) -> Self {
        let mut kinds = [false; 7];
        let mode = t.draw(4);
        for k in kinds.iter_mut() {
            *k = match mode {
                0 => true,
                _ => t.chance(1, 2),
            };
        }
        if !kinds.iter().any(|k| *k) {
            kinds[t.draw(7) as usize] = true;
        }
        GdsSwarm {
            kinds,
            opt_pm: *t.pick(&[0, 100, 500, 500, 900, 1000]),
            max_structs: *t.pick(&[0, 1, 1, 2, 3, 6]),
            max_elems: *t.pick(&[0, 1, 2, 4, 8, 12]),
            max_props: *t.pick(&[0, 0, 1, 3, 8]),
            max_pts: *t.pick(&[0, 1, 4, 5, 12]),
            profile,
            utf8: t.chance(1, 3),
            nul: t.chance(1, 10),
            empty_strings: t.chance(1, 2),
            long_strings: t.chance(1, if profile == StrProfile::Markup { 12 } else { 50 }),
            oversize: t.chance(1, 100),
            full_coords: t.chance(1, 2),
            hard_reals: t.chance(2, 3),
        }
    }
}

const MARKUP_SPECIALS: &[&str] = &[
    "\"", "'", ":", "#", "\\", "-", "?", "|", ">", "%", "@", "&", "*", "!", "{", "}", "[", "]", ",", " ", "  ", "\t", "\n", "~", "null", "true", "false", "1e3", "0x10", "1.0", "yes", "no", "é", "日本", "😀", ": ",
    " #", "- ", "\\n", "\\\"", "---", "...", "=", "<<", "`", "_", ".", "0", "-1", "+1", "1_000", ".inf", ".nan", "0o7", "12:30", "2001-01-01",
    // white space that is not ASCII (leading / trailing positions matter to trimming code)
    "\u{a0}", "\u{3000}", "\u{2003}", "\u{b}", "\u{c}",
];

pub fn gen_string(t: &mut Tape, sw: &GdsSwarm) -> String {
    match sw.profile {
        StrProfile::Ident => {
            let n = t.range(1, 8);
            (0..n).map(|_| (b'a' + t.draw(26) as u8) as char).collect()
        }
        StrProfile::Markup => {
            if sw.empty_strings && t.chance(1, 12) {
                return String::new();
            }
            if sw.long_strings && t.chance(1, 3) {
                // kilobytes of multi-byte text, so that 4 KiB / 8 KiB buffer boundaries fall inside characters
                let n = t.range(800, 3000);
                let mut s = String::new();
                let pad = t.draw(4);
                for _ in 0..pad {
                    s.push('p');
                }
                for i in 0..n {
                    s.push(['é', '日', '😀', 'ß', '本', '€'][((i + pad) % 6) as usize]);
                }
                return s;
            }
            let n = t.range(1, 5);
            let mut s = String::new();
            for _ in 0..n {
                if t.chance(1, 2) {
                    s.push_str(*t.pick(MARKUP_SPECIALS));
                } else {
                    s.push((b'a' + t.draw(26) as u8) as char);
                }
            }
            s
        }
        StrProfile::Gds => {
            let cat = t.draw(100);
            let len: u64 = if cat < 10 && sw.empty_strings {
                0
            } else if cat < 25 {
                1
            } else if cat < 85 {
                t.range(2, 12)
            } else if cat < 97 || !sw.long_strings {
                t.range(13, 200)
            } else if t.chance(1, 2) {
                *t.pick(&[4095u64, 4096, 8187, 8188, 8192, 16384, 32763, 32764])
            } else {
                // around the record limit: payload 65531 is the longest that fits (len+4 <= 65535, even)
                *t.pick(&[65529u64, 65530, 65531, 65532, 65533, 70000])
            };
            let mut s = String::with_capacity(len as usize);
            let mut n = 0u64;
            while n < len {
                if len > 1000 && n >= 16 {
                    // bulk filler without draws: keeps tapes short for near-limit strings. With UTF-8 enabled the filler
                    // mixes 1-, 2-, 3- and 4-byte characters (period 11 bytes), so that, over the drawn head of the
                    // string, every 4 KiB / 8 KiB boundary falls inside a character in some runs
                    let c = if sw.utf8 { ['x', 'é', 'y', '日', '😀'][(s.chars().count() % 5) as usize] } else { 'x' };
                    if n + c.len_utf8() as u64 > len {
                        s.push('x');
                        n += 1;
                    } else {
                        n += c.len_utf8() as u64;
                        s.push(c);
                    }
                    continue;
                }
                let c = if sw.utf8 && t.chance(1, 6) {
                    *t.pick(&['é', 'ß', 'π', '日', '本', '€', '😀', '\u{a0}'])
                } else if sw.nul && t.chance(1, 10) && (n + 1 < len || len % 2 == 1) {
                    '\0'
                } else {
                    (0x20 + t.draw(0x5f) as u8) as char
                };
                if n + c.len_utf8() as u64 > len {
                    s.push('z');
                    n += 1;
                } else {
                    n += c.len_utf8() as u64;
                    s.push(c);
                }
            }
            // GDSII cannot tell a trailing NUL from padding when the byte length is even; a string of odd byte length
            // that ends in NUL is padded with a second one, of which exactly one is stripped again: those are kept
            if s.ends_with('\0') && s.len() % 2 == 0 {
                s.pop();
                s.push('q');
            }
            s
        }
    }
}

/// Doubles inside the GDSII range [16^-64, 16^63) (or zero), boundary-heavy
pub fn gen_real(t: &mut Tape, hard: bool) -> f64 {
    let cat = if hard { t.draw(11) } else { t.draw(3) };
    let sign = if t.chance(1, 4) { -1.0 } else { 1.0 };
    let v: f64 = match cat {
        0 => return 0.0,
        10 => {
            // below the smallest normalised value 16^-65: M * 2^-312 with M < 2^52 is stored exactly with exponent
            // field 0 and leading zero digits in the mantissa
            let top = t.draw(52);
            let m = (1u64 << top) | (t.bits() & ((1u64 << top) - 1));
            let m = if t.chance(1, 3) { 1u64 << top } else { m };
            return sign * (m as f64) * 2f64.powi(-312);
        }
        1 | 2 => *t.pick(&[1e-3, 1e-9, 1.0, 90.0, 180.0, 270.0, 0.5, 2.0, 1e-6, 45.0, 0.001, 1e-12, 360.0, 1.5, 0.25, 1e3]),
        3 | 4 => {
            // power of two +- a few ulps
            let e = t.draw(508) as i32 - 256; // -256 ..= 251
            let base = 2f64.powi(e);
            let d = t.draw(7) as i64 - 3;
            let bits = (base.to_bits() as i64 + d) as u64;
            f64::from_bits(bits)
        }
        5 | 6 => {
            // power of sixteen +- a few ulps
            let e = t.draw(127) as i32 - 64; // 16^-64 ..= 16^62
            let base = 2f64.powi(4 * e);
            let d = t.draw(9) as i64 - 4;
            let bits = (base.to_bits() as i64 + d) as u64;
            f64::from_bits(bits)
        }
        7 => {
            // one- and two-bit mantissas
            let e = t.draw(508) as i64 - 256;
            let b1 = t.draw(52);
            let b2 = t.draw(52);
            let m = (1u64 << b1) | (1u64 << b2);
            f64::from_bits((((e + 1023) as u64) << 52) | (m & ((1u64 << 52) - 1)))
        }
        _ => {
            let e = t.draw(508) as i64 - 256;
            let m = t.bits() & ((1u64 << 52) - 1);
            f64::from_bits((((e + 1023) as u64) << 52) | m)
        }
    };
    let a = v.abs();
    let lo = 2f64.powi(-260);
    let hi = 2f64.powi(252);
    if !(a >= lo && a < hi) {
        return sign * 1.0;
    }
    sign * a
}

/// PATHTYPE: half the time one of the values the format defines (4 = variable extensions), else any i16
pub fn gen_path_type(t: &mut Tape) -> i16 {
    if t.chance(1, 2) {
        *t.pick(&[0i16, 1, 2, 4, 4])
    } else {
        gen_i16(t)
    }
}
pub fn gen_i16(t: &mut Tape) -> i16 {
    match t.draw(6) {
        0 => 0,
        1 => t.draw(64) as i16,
        2 => -(t.draw(64) as i16) - 1,
        3 => *t.pick(&[i16::MIN, i16::MAX, -1, 1, 255, 256, -256]),
        _ => t.bits() as i16,
    }
}
pub fn gen_i32(t: &mut Tape, full: bool) -> i32 {
    let c = if full { t.draw(6) } else { t.draw(3) };
    match c {
        0 => t.draw(200) as i32 - 100,
        1 => t.draw(2_000_000) as i32 - 1_000_000,
        2 => (t.draw(100) as i32) * 10,
        3 => *t.pick(&[i32::MIN, i32::MAX, -1, 0, 1, 65535, 65536, -65536, 0x7fff_ff00u32 as i32]),
        _ => t.bits() as i32,
    }
}
fn gen_pt(t: &mut Tape, sw: &GdsSwarm) -> GdsPoint {
    GdsPoint::new(gen_i32(t, sw.full_coords), gen_i32(t, sw.full_coords))
}
fn gen_pts(t: &mut Tape, sw: &GdsSwarm) -> Vec<GdsPoint> {
    let n = if sw.oversize && t.chance(1, 3) {
        *t.pick(&[8190u64, 8191, 8192, 8193, 9000])
    } else if sw.long_strings && t.chance(1, 6) {
        // records of a few KiB up to just under the limit (buffer-size boundaries inside one record)
        *t.pick(&[1023u64, 1024, 1025, 2048, 4095, 4096, 5000, 8000])
    } else {
        t.draw(sw.max_pts + 1)
    };
    if n > 100 {
        // cheap bulk
        let p = gen_pt(t, sw);
        return (0..n).map(|i| GdsPoint::new(p.x.wrapping_add(i as i32), p.y)).collect();
    }
    // relations between neighbours: a vertex repeated in place (zero-length segment), a polygon closed on its first vertex
    let mut v: Vec<GdsPoint> = Vec::with_capacity(n as usize);
    for _ in 0..n {
        if !v.is_empty() && t.chance(1, 10) {
            let last = v[v.len() - 1].clone();
            v.push(last);
        } else {
            v.push(gen_pt(t, sw));
        }
    }
    if v.len() >= 3 && t.chance(1, 6) {
        let n1 = v.len() - 1;
        v[n1] = v[0].clone();
    }
    v
}
fn opt(t: &mut Tape, sw: &GdsSwarm) -> bool {
    t.chance(sw.opt_pm, 1000)
}
fn gen_props(t: &mut Tape, sw: &GdsSwarm) -> Vec<GdsProperty> {
    let n = t.draw(sw.max_props + 1);
    (0..n).map(|_| GdsProperty { attr: gen_i16(t), value: gen_string(t, sw) }).collect()
}
fn gen_elflags(t: &mut Tape, sw: &GdsSwarm) -> Option<GdsElemFlags> {
    if opt(t, sw) {
        Some(GdsElemFlags(t.bits() as u8, t.bits() as u8))
    } else {
        None
    }
}
fn gen_plex(t: &mut Tape, sw: &GdsSwarm) -> Option<GdsPlex> {
    if opt(t, sw) {
        Some(GdsPlex(gen_i32(t, true)))
    } else {
        None
    }
}
pub fn gen_strans(t: &mut Tape, sw: &GdsSwarm) -> Option<GdsStrans> {
    if !opt(t, sw) {
        return None;
    }
    Some(GdsStrans {
        reflected: t.chance(1, 2),
        abs_mag: t.chance(1, 3),
        abs_angle: t.chance(1, 3),
        mag: if t.chance(1, 2) { Some(gen_real(t, sw.hard_reals)) } else { None },
        angle: if t.chance(1, 2) { Some(gen_real(t, sw.hard_reals)) } else { None },
    })
}
fn gen_dates(t: &mut Tape) -> GdsDateTimes {
    let mut d = || GdsDateTime { year: gen_i16(t), month: gen_i16(t), day: gen_i16(t), hour: gen_i16(t), minute: gen_i16(t), second: gen_i16(t) };
    let modified = d();
    let accessed = d();
    GdsDateTimes { modified, accessed }
}

pub fn gen_elem(t: &mut Tape, sw: &GdsSwarm, names: &[String]) -> GdsElement {
    let enabled: Vec<usize> = (0..7).filter(|i| sw.kinds[*i]).collect();
    let kind = *t.pick(&enabled);
    let refname = |t: &mut Tape| -> String {
        if !names.is_empty() && t.chance(3, 4) {
            t.pick(names).clone()
        } else {
            gen_string(t, sw)
        }
    };
    match kind {
        0 => GdsElement::GdsBoundary(GdsBoundary { layer: gen_i16(t), datatype: gen_i16(t), xy: gen_pts(t, sw), elflags: gen_elflags(t, sw), plex: gen_plex(t, sw), properties: gen_props(t, sw) }),
        1 => GdsElement::GdsPath(GdsPath {
            layer: gen_i16(t),
            datatype: gen_i16(t),
            xy: gen_pts(t, sw),
            width: if opt(t, sw) { Some(gen_i32(t, true)) } else { None },
            path_type: if opt(t, sw) { Some(gen_path_type(t)) } else { None },
            begin_extn: if opt(t, sw) { Some(gen_i32(t, true)) } else { None },
            end_extn: if opt(t, sw) { Some(gen_i32(t, true)) } else { None },
            elflags: gen_elflags(t, sw),
            plex: gen_plex(t, sw),
            properties: gen_props(t, sw),
        }),
        2 => GdsElement::GdsStructRef(GdsStructRef { name: refname(t), xy: gen_pt(t, sw), strans: gen_strans(t, sw), elflags: gen_elflags(t, sw), plex: gen_plex(t, sw), properties: gen_props(t, sw) }),
        3 => GdsElement::GdsArrayRef(GdsArrayRef {
            name: refname(t),
            xy: [gen_pt(t, sw), gen_pt(t, sw), gen_pt(t, sw)],
            cols: gen_i16(t),
            rows: gen_i16(t),
            strans: gen_strans(t, sw),
            elflags: gen_elflags(t, sw),
            plex: gen_plex(t, sw),
            properties: gen_props(t, sw),
        }),
        4 => GdsElement::GdsTextElem(GdsTextElem {
            string: gen_string(t, sw),
            layer: gen_i16(t),
            texttype: gen_i16(t),
            xy: gen_pt(t, sw),
            presentation: if opt(t, sw) { Some(GdsPresentation(t.bits() as u8, t.bits() as u8)) } else { None },
            path_type: if opt(t, sw) { Some(gen_path_type(t)) } else { None },
            width: if opt(t, sw) { Some(gen_i32(t, true)) } else { None },
            strans: gen_strans(t, sw),
            elflags: gen_elflags(t, sw),
            plex: gen_plex(t, sw),
            properties: gen_props(t, sw),
        }),
        5 => GdsElement::GdsNode(GdsNode { layer: gen_i16(t), nodetype: gen_i16(t), xy: gen_pts(t, sw), elflags: gen_elflags(t, sw), plex: gen_plex(t, sw), properties: gen_props(t, sw) }),
        _ => GdsElement::GdsBox(GdsBox {
            layer: gen_i16(t),
            boxtype: gen_i16(t),
            xy: [gen_pt(t, sw), gen_pt(t, sw), gen_pt(t, sw), gen_pt(t, sw), gen_pt(t, sw)],
            elflags: gen_elflags(t, sw),
            plex: gen_plex(t, sw),
            properties: gen_props(t, sw),
        }),
    }
}

/// Build a library from the tape. Never reads the clock: every date is drawn.
pub fn gen_lib(t: &mut Tape, profile: StrProfile) -> (GdsLibrary, GdsSwarm) {
    let sw = GdsSwarm::draw(t, profile);
    let nstructs = t.draw(sw.max_structs + 1);
    let wide = profile != StrProfile::Markup && t.chance(1, 250) && !sw.long_strings && !sw.oversize && sw.max_pts <= 12;
    let mut names: Vec<String> = Vec::new();
    for _ in 0..nstructs {
        // one name in 10 repeats an earlier one: nothing in the data model forbids two structs of one name
        if !names.is_empty() && t.chance(1, 10) {
            let again = t.pick(&names).clone();
            names.push(again);
        } else {
            names.push(gen_string(t, &sw));
        }
    }
    let mut structs = Vec::new();
    for i in 0..nstructs as usize {
        let nel = t.draw(sw.max_elems + 1);
        let dates = gen_dates(t);
        let mut elems = Vec::new();
        for _ in 0..nel {
            let e = gen_elem(t, &sw, &names);
            // one element in 10 is followed by an identical twin (two equal references or shapes in a row)
            if t.chance(1, 10) {
                elems.push(e.clone());
            }
            elems.push(e);
        }
        // one library in 250: "wide" content in its first struct - hundreds to thousands of elements and hundreds of
        // properties on one of them - built by repeating the drawn elements (no further draws, so tapes stay short);
        // counts sit around thresholds that are not machine limits (255/256, 1000, 1024, 4096)
        if i == 0 && wide && !elems.is_empty() {
            let target = *t.pick(&[255usize, 256, 257, 1000, 1001, 1024, 4096, 5000]);
            let base = elems.clone();
            let mut k = 0usize;
            while elems.len() < target {
                let mut e = base[k % base.len()].clone();
                if let GdsElement::GdsBoundary(b) = &mut e {
                    b.layer = (k % 300) as i16;
                }
                elems.push(e);
                k += 1;
            }
            let nprops = *t.pick(&[0usize, 127, 255, 256, 300, 1000]);
            let props: Vec<GdsProperty> = (0..nprops).map(|j| GdsProperty { attr: (j % 400) as i16, value: format!("v{}", j) }).collect();
            match &mut elems[0] {
                GdsElement::GdsBoundary(x) => x.properties = props,
                GdsElement::GdsPath(x) => x.properties = props,
                GdsElement::GdsStructRef(x) => x.properties = props,
                GdsElement::GdsArrayRef(x) => x.properties = props,
                GdsElement::GdsTextElem(x) => x.properties = props,
                GdsElement::GdsNode(x) => x.properties = props,
                GdsElement::GdsBox(x) => x.properties = props,
            }
        }
        structs.push(GdsStruct { name: names[i].clone(), dates, elems });
        // one struct in 12 is followed by a verbatim copy of itself (same name, dates and elements): a legal value of
        // the data model, and what concatenating two exports of one cell produces
        if t.chance(1, 12) {
            let tw = structs[structs.len() - 1].clone();
            structs.push(tw);
        }
    }
    // many structs, by the same device
    if wide && !structs.is_empty() && t.chance(1, 2) {
        let target = *t.pick(&[100usize, 255, 256, 1000]);
        let base = structs.clone();
        let mut k = 0usize;
        while structs.len() < target {
            let mut s2 = base[k % base.len()].clone();
            s2.name = format!("{}_{}", s2.name.chars().take(20).collect::<String>().replace('\0', "n"), k);
            s2.elems.truncate(3);
            structs.push(s2);
            k += 1;
        }
    }
    let lib = GdsLibrary {
        name: gen_string(t, &sw),
        version: gen_i16(t),
        dates: gen_dates(t),
        units: GdsUnits(gen_real(t, sw.hard_reals), gen_real(t, sw.hard_reals)),
        structs,
        libdirsize: Unsupported,
        srfname: Unsupported,
        libsecur: Unsupported,
        reflibs: Unsupported,
        fonts: Unsupported,
        attrtable: Unsupported,
        generations: Unsupported,
        format_type: Unsupported,
    };
    (lib, sw)
}

/// Structure digest input: a short description of what a library contains
pub fn describe(lib: &GdsLibrary) -> String {
    let st = lib.stats();
    let mut props = 0usize;
    let mut opts = 0usize;
    let mut strlens = lib.name.len();
    for s in &lib.structs {
        strlens += s.name.len();
        for e in &s.elems {
            match e {
                GdsElement::GdsBoundary(x) => {
                    props += x.properties.len();
                    opts += x.elflags.is_some() as usize + x.plex.is_some() as usize;
                }
                GdsElement::GdsPath(x) => {
                    props += x.properties.len();
                    opts += x.elflags.is_some() as usize + x.plex.is_some() as usize + x.width.is_some() as usize + x.path_type.is_some() as usize + x.begin_extn.is_some() as usize + x.end_extn.is_some() as usize;
                }
                GdsElement::GdsStructRef(x) => {
                    props += x.properties.len();
                    opts += x.elflags.is_some() as usize + x.plex.is_some() as usize + x.strans.is_some() as usize;
                }
                GdsElement::GdsArrayRef(x) => {
                    props += x.properties.len();
                    opts += x.elflags.is_some() as usize + x.plex.is_some() as usize + x.strans.is_some() as usize;
                }
                GdsElement::GdsTextElem(x) => {
                    props += x.properties.len();
                    strlens += x.string.len();
                    opts += x.elflags.is_some() as usize + x.plex.is_some() as usize + x.strans.is_some() as usize + x.presentation.is_some() as usize + x.path_type.is_some() as usize + x.width.is_some() as usize;
                }
                GdsElement::GdsNode(x) => {
                    props += x.properties.len();
                    opts += x.elflags.is_some() as usize + x.plex.is_some() as usize;
                }
                GdsElement::GdsBox(x) => {
                    props += x.properties.len();
                    opts += x.elflags.is_some() as usize + x.plex.is_some() as usize;
                }
            }
        }
    }
    format!(
        "structs={} bnd={} path={} sref={} aref={} text={} node={} box={} props={} optfields={} strbytes={}",
        st.structs, st.boundaries, st.paths, st.struct_refs, st.array_refs, st.text_elems, st.nodes, st.boxes, props, opts, strlens
    )
}

pub fn elem_count(lib: &GdsLibrary) -> usize {
    lib.structs.iter().map(|s| s.elems.len()).sum()
}
