//! Simulated sinks, sources and file system. Every answer to an I/O call is
//! decided by the run's fault tape and explicit per-object policy; nothing
//! here touches the OS.

use crate::rng::{Digest, Tape};
use std::cell::RefCell;
use std::collections::BTreeMap;
use std::io::{Error, ErrorKind, Read, Result, Seek, SeekFrom, Write};
use std::path::Path;
use std::rc::Rc;

/// Counters of what actually fired in a run (indices into `IoStats.c`)
#[derive(Clone, Copy, Debug, PartialEq, Eq)]
#[repr(usize)]
pub enum K {
    WriteCalls,
    ReadCalls,
    FlushCalls,
    SeekCalls,
    BytesWritten,
    BytesRead,
    BytesRequestedRead,
    ShortWrite,
    ShortRead,
    EintrWrite,
    EintrRead,
    EioWrite,
    EnospcWrite,
    EioRead,
    FlushErr,
    CreateErr,
    OpenErr,
    Creates,
    Opens,
    ChunkedWrite,
    ChunkedRead,
    EofRead,
    WouldBlockWrite,
    WouldBlockRead,
    TimedOutRead,
    ZeroWrite,
    N,
}
pub const K_NAMES: [&str; K::N as usize] = [
    "write_calls",
    "read_calls",
    "flush_calls",
    "seek_calls",
    "bytes_written",
    "bytes_read",
    "bytes_requested_read",
    "short_write",
    "short_read",
    "eintr_write",
    "eintr_read",
    "eio_write",
    "enospc_write",
    "eio_read",
    "flush_error",
    "create_error",
    "open_error",
    "creates",
    "opens",
    "chunk_limited_write",
    "chunk_limited_read",
    "eof_read",
    "wouldblock_write",
    "wouldblock_read",
    "timedout_read",
    "zero_length_write",
];

#[derive(Clone, Debug, Default)]
pub struct IoStats {
    pub c: [u64; K::N as usize],
}
impl IoStats {
    pub fn add(&mut self, o: &IoStats) {
        for i in 0..self.c.len() {
            self.c[i] += o.c[i];
        }
    }
    pub fn get(&self, k: K) -> u64 {
        self.c[k as usize]
    }
    pub fn faults_fired(&self) -> u64 {
        use K::*;
        [ShortWrite, ShortRead, EintrWrite, EintrRead, EioWrite, EnospcWrite, EioRead, FlushErr, CreateErr, OpenErr, ChunkedWrite, ChunkedRead, WouldBlockWrite, WouldBlockRead, TimedOutRead, ZeroWrite]
            .iter()
            .map(|k| self.get(*k))
            .sum()
    }
    pub fn terminal_fired(&self) -> u64 {
        use K::*;
        [EioWrite, EnospcWrite, EioRead, FlushErr, CreateErr, OpenErr, WouldBlockWrite, WouldBlockRead, TimedOutRead, ZeroWrite].iter().map(|k| self.get(*k)).sum()
    }
}

/// Per-run shared I/O context: the fault tape, the counters, the event-log digest
pub struct RunIo {
    pub ftape: Tape,
    pub stats: IoStats,
    pub log: Digest,
    pub steps: u64,
    /// simulated time: every I/O call costs a latency derived from the event log state
    pub sim_ns: u64,
    pub trace: Option<Vec<String>>,
    /// errors handed to the code under test, in order: (object, call index, kind)
    pub errors_returned: Vec<(u32, u64, &'static str)>,
    /// spelling of path arguments in this run (set by SimFs::new)
    pub path_style: Option<&'static str>,
    next_obj: u32,
}
pub type Io = Rc<RefCell<RunIo>>;
pub fn new_io(ftape: Tape, trace: bool) -> Io {
    Rc::new(RefCell::new(RunIo {
        ftape,
        stats: IoStats::default(),
        log: Digest::new(),
        steps: 0,
        sim_ns: 0,
        trace: if trace { Some(Vec::new()) } else { None },
        errors_returned: Vec::new(),
        path_style: None,
        next_obj: 0,
    }))
}
impl RunIo {
    fn ev(&mut self, obj: u32, op: &str, req: u64, res: i64, note: &str) {
        self.steps += 1;
        self.sim_ns += 500 + (self.log.0 >> 52);
        self.log.u64(obj as u64);
        self.log.str(op);
        self.log.u64(req);
        self.log.u64(res as u64);
        self.log.str(note);
        if let Some(t) = self.trace.as_mut() {
            if t.len() < 400 {
                t.push(format!("#{} obj{} {} req={} -> {}{}", self.steps, obj, op, req, res, if note.is_empty() { String::new() } else { format!(" {}", note) }));
            }
        }
    }
    fn k(&mut self, k: K) {
        self.stats.c[k as usize] += 1;
    }
    fn kn(&mut self, k: K, n: u64) {
        self.stats.c[k as usize] += n;
    }
    pub fn new_obj(&mut self) -> u32 {
        self.next_obj += 1;
        self.next_obj
    }
}

#[derive(Clone, Copy, Debug, PartialEq, Eq)]
pub enum TermKind {
    Eio,
    Enospc,
    /// EAGAIN: the descriptor is non-blocking and not ready (ErrorKind::WouldBlock)
    Eagain,
    /// ETIMEDOUT: a network file system gave up (ErrorKind::TimedOut)
    Timedout,
    /// write only: the device accepts nothing, `write` answers Ok(0) (std's write_all reports WriteZero);
    /// on a read it stands for EIO
    Zero,
}
impl TermKind {
    fn err(self) -> Error {
        match self {
            TermKind::Eio | TermKind::Zero => Error::from_raw_os_error(5),
            TermKind::Enospc => Error::from_raw_os_error(28),
            TermKind::Eagain => Error::from_raw_os_error(11),
            TermKind::Timedout => Error::from_raw_os_error(110),
        }
    }
    pub fn name(self) -> &'static str {
        match self {
            TermKind::Eio => "EIO",
            TermKind::Enospc => "ENOSPC",
            TermKind::Eagain => "EAGAIN",
            TermKind::Timedout => "ETIMEDOUT",
            TermKind::Zero => "ZERO",
        }
    }
}
/// A planned terminal fault: the call that would transfer byte `at` fails
#[derive(Clone, Copy, Debug)]
pub struct Term {
    pub at: u64,
    pub kind: TermKind,
    pub sticky: bool,
}

/// How one simulated object answers its calls
#[derive(Clone, Debug, Default)]
pub struct Policy {
    /// per-mille of calls answered short (1 <= k < n)
    pub short_pm: u32,
    /// per-mille of calls that start an EINTR burst (1..=3 consecutive Interrupted)
    pub eintr_pm: u32,
    /// 0 = unlimited; otherwise at most this many bytes per call
    pub chunk_max: usize,
    pub terms: Vec<Term>,
    /// fail the n-th flush call (0-based) with EIO
    pub flush_fail: Option<u32>,
    /// source only: behaves like a pipe — every seek / stream_position fails with ESPIPE
    pub not_seekable: bool,
    /// sink only: write-back cache — bytes become durable (visible in the store) only when a flush succeeds;
    /// whatever is still pending when the sink is dropped is lost
    pub writeback: bool,
    /// sink only: the first n flush calls return EINTR (nothing is made durable by them)
    pub flush_eintr: u32,
    /// source only: the file shrank while being read — reads hit end-of-file at this offset although
    /// seek(End) still reports the original length
    pub eof_at: Option<u64>,
}
impl Policy {
    pub fn plain() -> Self {
        Self::default()
    }
    pub fn is_benign_only(&self) -> bool {
        self.terms.is_empty() && self.flush_fail.is_none()
    }
}

struct Core {
    io: Io,
    id: u32,
    pol: Policy,
    calls: u64,
    flushes: u32,
    burst: u32,
}
impl Core {
    fn new(io: &Io, pol: Policy) -> Self {
        let id = io.borrow_mut().new_obj();
        Core { io: io.clone(), id, pol, calls: 0, flushes: 0, burst: 0 }
    }
    /// Decide the answer to a transfer of up to `n` bytes at offset `pos`.
    /// Ok(grant) with 1 <= grant <= n, or Err.
    fn decide(&mut self, n: usize, pos: u64, write: bool) -> Result<usize> {
        let mut io = self.io.borrow_mut();
        self.calls += 1;
        let op = if write { "write" } else { "read" };
        if self.burst > 0 {
            self.burst -= 1;
            io.k(if write { K::EintrWrite } else { K::EintrRead });
            io.ev(self.id, op, n as u64, -4, "EINTR");
            return Err(Error::from(ErrorKind::Interrupted));
        }
        // terminal faults first: they are planned by byte offset
        let mut grant = n;
        let mut hit: Option<usize> = None;
        for (i, t) in self.pol.terms.iter().enumerate() {
            if t.at >= pos && t.at < pos + grant as u64 {
                if t.at == pos {
                    hit = Some(i);
                    break;
                } else {
                    grant = (t.at - pos) as usize;
                }
            } else if t.sticky && t.at < pos {
                hit = Some(i);
                break;
            }
        }
        if let Some(i) = hit {
            let t = self.pol.terms[i];
            if !t.sticky {
                self.pol.terms.remove(i);
            }
            let k = match (write, t.kind) {
                (true, TermKind::Eio) => K::EioWrite,
                (true, TermKind::Enospc) => K::EnospcWrite,
                (true, TermKind::Eagain) => K::WouldBlockWrite,
                (true, TermKind::Timedout) => K::EioWrite,
                (true, TermKind::Zero) => K::ZeroWrite,
                (false, TermKind::Eagain) => K::WouldBlockRead,
                (false, TermKind::Timedout) => K::TimedOutRead,
                (false, _) => K::EioRead,
            };
            io.k(k);
            io.errors_returned.push((self.id, self.calls, t.kind.name()));
            if write && t.kind == TermKind::Zero {
                io.ev(self.id, op, n as u64, 0, "ZERO");
                return Ok(0);
            }
            io.ev(self.id, op, n as u64, -5, t.kind.name());
            return Err(t.kind.err());
        }
        // benign schedule
        if self.pol.eintr_pm > 0 || self.pol.short_pm > 0 {
            let v = io.ftape.draw(1000) as u32;
            if v >= 1000 - self.pol.eintr_pm.min(1000) {
                self.burst = io.ftape.draw(3) as u32; // 0..=2 further ones
                io.k(if write { K::EintrWrite } else { K::EintrRead });
                io.ev(self.id, op, n as u64, -4, "EINTR");
                return Err(Error::from(ErrorKind::Interrupted));
            } else if v >= 1000 - (self.pol.eintr_pm + self.pol.short_pm).min(1000) && grant > 1 {
                grant = 1 + io.ftape.draw(grant as u64 - 1) as usize;
                io.k(if write { K::ShortWrite } else { K::ShortRead });
            }
        }
        if self.pol.chunk_max > 0 && grant > self.pol.chunk_max {
            grant = self.pol.chunk_max;
            io.k(if write { K::ChunkedWrite } else { K::ChunkedRead });
        }
        Ok(grant)
    }
}

/// Stored bytes of one simulated file / sink
pub type Store = Rc<RefCell<Vec<u8>>>;

/// A `Write` whose every call is answered by the simulator
pub struct SimSink {
    core: Core,
    pub store: Store,
    pending: Vec<u8>,
}
impl SimSink {
    pub fn new(io: &Io, pol: Policy) -> Self {
        SimSink { core: Core::new(io, pol), store: Rc::new(RefCell::new(Vec::new())), pending: Vec::new() }
    }
    pub fn with_store(io: &Io, pol: Policy, store: Store) -> Self {
        SimSink { core: Core::new(io, pol), store, pending: Vec::new() }
    }
}
impl Write for SimSink {
    fn write(&mut self, buf: &[u8]) -> Result<usize> {
        self.core.io.borrow_mut().k(K::WriteCalls);
        if buf.is_empty() {
            self.core.io.borrow_mut().ev(self.core.id, "write", 0, 0, "");
            return Ok(0);
        }
        let pos = (self.store.borrow().len() + self.pending.len()) as u64;
        let g = self.core.decide(buf.len(), pos, true)?;
        if self.core.pol.writeback {
            self.pending.extend_from_slice(&buf[..g]);
        } else {
            self.store.borrow_mut().extend_from_slice(&buf[..g]);
        }
        let mut io = self.core.io.borrow_mut();
        io.kn(K::BytesWritten, g as u64);
        io.ev(self.core.id, "write", buf.len() as u64, g as i64, "");
        Ok(g)
    }
    fn flush(&mut self) -> Result<()> {
        let mut io = self.core.io.borrow_mut();
        io.k(K::FlushCalls);
        let n = self.core.flushes;
        self.core.flushes += 1;
        if self.core.pol.flush_fail == Some(n) {
            io.k(K::FlushErr);
            io.errors_returned.push((self.core.id, self.core.calls, "FLUSH-EIO"));
            io.ev(self.core.id, "flush", 0, -5, "EIO");
            return Err(Error::from_raw_os_error(5));
        }
        if self.core.pol.flush_eintr > n {
            io.k(K::EintrWrite);
            io.errors_returned.push((self.core.id, self.core.calls, "FLUSH-EINTR"));
            io.ev(self.core.id, "flush", 0, -4, "EINTR");
            return Err(Error::from(ErrorKind::Interrupted));
        }
        if !self.pending.is_empty() {
            self.store.borrow_mut().extend_from_slice(&self.pending);
            self.pending.clear();
        }
        io.ev(self.core.id, "flush", 0, 0, "");
        Ok(())
    }
}

/// A `Read + Seek` over stored bytes whose every call is answered by the simulator
pub struct SimSource {
    core: Core,
    data: Rc<Vec<u8>>,
    pos: u64,
    /// highest offset (exclusive) ever handed out
    pub high_water: Rc<RefCell<u64>>,
}
impl SimSource {
    pub fn new(io: &Io, pol: Policy, data: Rc<Vec<u8>>) -> Self {
        SimSource { core: Core::new(io, pol), data, pos: 0, high_water: Rc::new(RefCell::new(0)) }
    }
}
impl Read for SimSource {
    fn read(&mut self, buf: &mut [u8]) -> Result<usize> {
        {
            let mut io = self.core.io.borrow_mut();
            io.k(K::ReadCalls);
            io.kn(K::BytesRequestedRead, buf.len() as u64);
        }
        let mut len = self.data.len() as u64;
        if let Some(e) = self.core.pol.eof_at {
            if e < len {
                len = e;
                if self.pos >= len && !buf.is_empty() {
                    let mut io = self.core.io.borrow_mut();
                    if !io.errors_returned.iter().any(|x| x.0 == self.core.id && x.2 == "EOF-EARLY") {
                        io.errors_returned.push((self.core.id, self.core.calls, "EOF-EARLY"));
                    }
                }
            }
        }
        if buf.is_empty() || self.pos >= len {
            let mut io = self.core.io.borrow_mut();
            if !buf.is_empty() {
                io.k(K::EofRead);
            }
            io.ev(self.core.id, "read", buf.len() as u64, 0, "");
            return Ok(0);
        }
        let n = (buf.len() as u64).min(len - self.pos) as usize;
        let g = self.core.decide(n, self.pos, false)?;
        let p = self.pos as usize;
        buf[..g].copy_from_slice(&self.data[p..p + g]);
        self.pos += g as u64;
        {
            let mut hw = self.high_water.borrow_mut();
            if self.pos > *hw {
                *hw = self.pos;
            }
        }
        let mut io = self.core.io.borrow_mut();
        io.kn(K::BytesRead, g as u64);
        io.ev(self.core.id, "read", buf.len() as u64, g as i64, "");
        Ok(g)
    }
}
impl Seek for SimSource {
    fn seek(&mut self, s: SeekFrom) -> Result<u64> {
        let mut io = self.core.io.borrow_mut();
        io.k(K::SeekCalls);
        if self.core.pol.not_seekable {
            io.ev(self.core.id, "seek", 0, -29, "ESPIPE");
            return Err(Error::from_raw_os_error(29));
        }
        let np: i128 = match s {
            SeekFrom::Start(x) => x as i128,
            SeekFrom::Current(d) => self.pos as i128 + d as i128,
            SeekFrom::End(d) => self.data.len() as i128 + d as i128,
        };
        if np < 0 {
            return Err(Error::from(ErrorKind::InvalidInput));
        }
        self.pos = np as u64;
        io.ev(self.core.id, "seek", 0, self.pos as i64, "");
        Ok(self.pos)
    }
}

/// One handle of the simulated file system: a sink if created, a source if opened
pub enum SimFile {
    W(SimSink),
    R(SimSource),
}
impl Read for SimFile {
    fn read(&mut self, buf: &mut [u8]) -> Result<usize> {
        match self {
            SimFile::R(r) => r.read(buf),
            SimFile::W(_) => Err(Error::from_raw_os_error(9)),
        }
    }
}
impl Write for SimFile {
    fn write(&mut self, buf: &[u8]) -> Result<usize> {
        match self {
            SimFile::W(w) => w.write(buf),
            SimFile::R(_) => Err(Error::from_raw_os_error(9)),
        }
    }
    fn flush(&mut self) -> Result<()> {
        match self {
            SimFile::W(w) => w.flush(),
            SimFile::R(_) => Ok(()),
        }
    }
}
impl Seek for SimFile {
    fn seek(&mut self, s: SeekFrom) -> Result<u64> {
        match self {
            SimFile::R(r) => r.seek(s),
            SimFile::W(w) => {
                // only position queries are meaningful on an append-only sink
                let len = w.store.borrow().len() as u64;
                match s {
                    SeekFrom::Current(0) | SeekFrom::End(0) => Ok(len),
                    SeekFrom::Start(x) if x == len => Ok(len),
                    _ => Err(Error::from(ErrorKind::Unsupported)),
                }
            }
        }
    }
}

#[derive(Clone, Debug, Default)]
pub struct FilePlan {
    pub write: Policy,
    pub read: Policy,
    pub create_err: Option<ErrorKind>,
    pub open_err: Option<ErrorKind>,
}

/// Thread-local in-memory file system implementing the repository's `Vfs` hook
pub struct SimFs {
    pub io: Io,
    files: RefCell<BTreeMap<String, Store>>,
    plans: RefCell<BTreeMap<String, FilePlan>>,
    /// every handle ever created for a path keeps its high-water mark here
    pub read_marks: RefCell<BTreeMap<String, Rc<RefCell<u64>>>>,
    /// how this run spells the path arguments it hands to the code under test (see [SimFs::sp])
    pub path_style: u64,
    spelled: RefCell<BTreeMap<Vec<u8>, String>>,
}
pub const PATH_STYLES: [&str; 16] = ["absolute", "relative", "dot-dotdot", "upper-ext", "no-ext", "many-dots", "non-ascii+space", "long-name", "hidden", "other-ext", "double-slash", "odd-length+percent", "no-file-name(ends-in-dotdot)", "non-utf8-name", "trailing-space", "leading-space"];
impl SimFs {
    pub fn new(io: &Io) -> Rc<Self> {
        // the environment of the calls is part of the schedule: half of the runs use plain absolute paths
        let path_style = {
            let mut i = io.borrow_mut();
            if i.ftape.chance(1, 2) {
                0
            } else {
                i.ftape.draw(PATH_STYLES.len() as u64)
            }
        };
        io.borrow_mut().path_style = Some(PATH_STYLES[path_style as usize]);
        Rc::new(SimFs { io: io.clone(), files: RefCell::new(BTreeMap::new()), plans: RefCell::new(BTreeMap::new()), read_marks: RefCell::new(BTreeMap::new()), path_style, spelled: RefCell::new(BTreeMap::new()) })
    }
    pub fn path_style_name(&self) -> &'static str {
        PATH_STYLES[self.path_style as usize]
    }
    /// The spelling under which this run passes the file `canonical` ("/sim/<stem>.<ext>") to the code under test.
    /// Checks keep addressing the store by the canonical name; `create`/`open` map the spelling back.
    pub fn sp(&self, canonical: &str) -> std::path::PathBuf {
        self.spell(canonical, self.path_style)
    }
    /// Same, for interfaces that take the path as a `String` (the non-UTF-8 style falls back to the plain one)
    pub fn sp_utf8(&self, canonical: &str) -> String {
        let st = if self.path_style == 13 { 0 } else { self.path_style };
        self.spell(canonical, st).to_string_lossy().to_string()
    }
    fn spell(&self, canonical: &str, style: u64) -> std::path::PathBuf {
        use std::os::unix::ffi::{OsStrExt, OsStringExt};
        let name = canonical.rsplit('/').next().unwrap_or(canonical);
        let (stem, ext) = match name.rfind('.') {
            Some(i) => (&name[..i], &name[i + 1..]),
            None => (name, ""),
        };
        let s: Vec<u8> = match style {
            0 => canonical.to_string(),
            1 => name.to_string(),
            2 => format!("./work/../{}", name),
            3 => format!("/sim/{}.{}", stem, ext.to_uppercase()),
            4 => format!("/sim/{}_{}", stem, ext),
            5 => format!("/sim/{}.v2.final.{}", stem, ext),
            6 => format!("/sim/\u{82af}\u{7247} \u{df} {}.{}", stem, ext),
            7 => format!("/sim/{}{}.{}", stem, "x".repeat(240 - stem.len().min(200)), ext),
            8 => format!("/sim/.{}.{}", stem, ext),
            9 => format!("/sim/{}.{}.bak", stem, ext),
            10 => format!("//sim///{}", name),
            11 => format!("/sim/{}%20#1.{}", stem, ext),
            // a path whose `file_name()` is None (the simulated file system still serves a file for it)
            12 => format!("/sim/{}/..", name),
            // a Latin-1 name: not valid UTF-8
            13 => {
                let mut b = b"/sim/caf\xE9-m\xFCller-".to_vec();
                b.extend_from_slice(name.as_bytes());
                self.spelled.borrow_mut().insert(b.clone(), canonical.to_string());
                return std::path::PathBuf::from(std::ffi::OsString::from_vec(b));
            }
            14 => format!("/sim/{} ", name),
            _ => format!("/sim/ {}", name),
        }
        .into_bytes();
        self.spelled.borrow_mut().insert(s.clone(), canonical.to_string());
        let _ = std::ffi::OsStr::from_bytes(&s);
        std::path::PathBuf::from(std::ffi::OsString::from_vec(s))
    }
    fn canon(&self, path: &Path) -> String {
        use std::os::unix::ffi::OsStrExt;
        match self.spelled.borrow().get(path.as_os_str().as_bytes()) {
            Some(c) => c.clone(),
            None => path.to_string_lossy().to_string(),
        }
    }
    pub fn plan(&self, path: &str, plan: FilePlan) {
        self.plans.borrow_mut().insert(path.to_string(), plan);
    }
    pub fn put(&self, path: &str, bytes: Vec<u8>) {
        self.files.borrow_mut().insert(path.to_string(), Rc::new(RefCell::new(bytes)));
    }
    pub fn get(&self, path: &str) -> Option<Vec<u8>> {
        self.files.borrow().get(path).map(|s| s.borrow().clone())
    }
    pub fn exists(&self, path: &str) -> bool {
        self.files.borrow().contains_key(path)
    }
    fn plan_of(&self, path: &str) -> FilePlan {
        self.plans.borrow().get(path).cloned().unwrap_or_default()
    }
    /// Install as this thread's file system; returns a guard that uninstalls on drop
    pub fn install(self: &Rc<Self>) -> VfsGuard {
        layout21utils::verif::install_vfs(Some(self.clone() as Rc<dyn layout21utils::verif::Vfs>));
        VfsGuard
    }
}
pub struct VfsGuard;
impl Drop for VfsGuard {
    fn drop(&mut self) {
        layout21utils::verif::install_vfs(None);
        layout21utils::verif::set_bufwriter_capacity(None);
    }
}
impl layout21utils::verif::Vfs for SimFs {
    fn create(&self, path: &Path) -> Result<Box<dyn layout21utils::verif::VFile>> {
        let p = self.canon(path);
        let plan = self.plan_of(&p);
        let mut io = self.io.borrow_mut();
        io.k(K::Creates);
        if let Some(k) = plan.create_err {
            io.k(K::CreateErr);
            io.errors_returned.push((0, 0, "CREATE"));
            io.ev(0, "create", 0, -1, &p);
            return Err(Error::from(k));
        }
        io.ev(0, "create", 0, 0, &p);
        drop(io);
        // create truncates, immediately
        let store: Store = Rc::new(RefCell::new(Vec::new()));
        self.files.borrow_mut().insert(p, store.clone());
        Ok(Box::new(SimFile::W(SimSink::with_store(&self.io, plan.write, store))))
    }
    fn open(&self, path: &Path) -> Result<Box<dyn layout21utils::verif::VFile>> {
        let p = self.canon(path);
        let plan = self.plan_of(&p);
        let mut io = self.io.borrow_mut();
        io.k(K::Opens);
        if let Some(k) = plan.open_err {
            io.k(K::OpenErr);
            io.errors_returned.push((0, 0, "OPEN"));
            io.ev(0, "open", 0, -1, &p);
            return Err(Error::from(k));
        }
        let data = match self.files.borrow().get(&p) {
            Some(s) => Rc::new(s.borrow().clone()),
            None => {
                io.ev(0, "open", 0, -2, &p);
                return Err(Error::from(ErrorKind::NotFound));
            }
        };
        io.ev(0, "open", 0, 0, &p);
        drop(io);
        let src = SimSource::new(&self.io, plan.read, data);
        self.read_marks.borrow_mut().insert(p, src.high_water.clone());
        Ok(Box::new(SimFile::R(src)))
    }
}
