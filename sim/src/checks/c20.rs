//! C20 — conversions are deterministic: same input, same output, in any process.
//! Hash seed (getrandom seam), wall clock (H3) and process identity are owned by the simulator.

use crate::engine::*;
use crate::gen_conv::*;
use crate::hashseed;
use crate::rng::{fnv64, Digest, Tape};
use layout21raw as raw;
use serde_json::{json, Value};

pub struct C20;

pub const CONVS: [&str; 7] = ["gds->raw", "raw->gds", "raw->proto", "lef->raw->lef", "gridded->raw", "raw->lef", "lef->raw->proto"];

/// Clock script `id`: (start instant as unix seconds, seconds added per read)
fn clock_script(id: u64) -> (i64, i64) {
    match id % 4 {
        0 => (1_790_000_000, 0),
        1 => (946_684_798, 1),        // 1999-12-31 23:59:58, +1 s per read: straddles second/minute/.../year
        2 => (2_147_483_647, -3600),  // 2038-01-19 03:14:07, jumping backwards
        _ => (0, 86_400 * 365),       // epoch, a year per read
    }
}
fn civil(mut secs: i64) -> [i16; 6] {
    let days = secs.div_euclid(86_400);
    secs = secs.rem_euclid(86_400);
    // days since 1970-01-01 -> y/m/d (Howard Hinnant's algorithm)
    let z = days + 719_468;
    let era = z.div_euclid(146_097);
    let doe = z.rem_euclid(146_097);
    let yoe = (doe - doe / 1460 + doe / 36_524 - doe / 146_096) / 365;
    let y = yoe + era * 400;
    let doy = doe - (365 * yoe + yoe / 4 - yoe / 100);
    let mp = (5 * doy + 2) / 153;
    let d = doy - (153 * mp + 2) / 5 + 1;
    let m = if mp < 10 { mp + 3 } else { mp - 9 };
    let y = if m <= 2 { y + 1 } else { y };
    [(y - 1900) as i16, m as i16, d as i16, (secs / 3600) as i16, ((secs % 3600) / 60) as i16, (secs % 60) as i16]
}

#[derive(Clone, Debug, PartialEq)]
pub struct Outcome {
    /// "ok" | "err" | "panic"
    pub kind: String,
    pub dump: String,
    pub clock_reads: u64,
    pub dates_match_script: Option<bool>,
    pub order_probe: Vec<u32>,
}

/// Run conversion `conv` on the input described by `vals`, in this thread
pub fn convert_here(conv: usize, vals: Vec<u64>, clock_id: u64) -> Outcome {
    let reads = std::rc::Rc::new(std::cell::Cell::new(0u64));
    let (start, step) = clock_script(clock_id);
    {
        let reads = reads.clone();
        layout21utils::verif::install_clock(Some(Box::new(move || {
            let n = reads.get();
            reads.set(n + 1);
            civil(start + step * n as i64)
        })));
    }
    let order_probe = hashseed::order_probe();
    let mut t = Tape::replay(vals);
    let mut dates_ok = None;
    let r = guard(|| -> Result<String, String> {
        match conv {
            0 => {
                let g = gen_gds_importable(&mut t);
                let lib = raw::Library::from_gds(&g, None).map_err(|e| format!("{:?}", e))?;
                Ok(dump_raw(&lib))
            }
            1 => {
                let lib = gen_raw(&mut t, &RawOpts { allow_path_in_abstract: true, allow_pico: true });
                let g = lib.to_gds().map_err(|e| format!("{:?}", e))?;
                let (d, dates) = dump_gds_nodates(&g);
                // probe only: do the dates come from the scripted clock?
                let (s0, st) = clock_script(clock_id);
                dates_ok = Some(dates.iter().all(|dt| (0..64).any(|n| {
                    let c = civil(s0 + st * n);
                    dt.modified.year == c[0] && dt.modified.month == c[1] && dt.modified.day == c[2] && dt.modified.hour == c[3] && dt.modified.minute == c[4] && dt.modified.second == c[5]
                })));
                Ok(d)
            }
            2 => {
                let lib = gen_raw(&mut t, &RawOpts { allow_path_in_abstract: true, allow_pico: false });
                let p = lib.to_proto().map_err(|e| format!("{:?}", e))?;
                Ok(format!("{:#?}", p))
            }
            6 => {
                // chained conversions meet each other's gaps: layers created by the LEF importer carry no purpose
                // numbers, so the protobuf exporter reports an error — which one must not depend on the hash seed
                let l = gen_lef_for_import(&mut t);
                let rawlib = raw::lef::LefImporter::import(&l, None).map_err(|e| format!("{:?}", e))?;
                let p = rawlib.to_proto().map_err(|e| format!("{:?}", e))?;
                Ok(format!("{:#?}", p))
            }
            5 => {
                // the LEF exporter on its own (LEF -> raw -> LEF only ever sees layers the importer created)
                let lib = gen_raw(&mut t, &RawOpts { allow_path_in_abstract: false, allow_pico: true });
                let l = raw::lef::LefExporter::export(&lib).map_err(|e| format!("{:?}", e))?;
                Ok(dump_lef(&l))
            }
            4 => {
                let (lib, stk) = crate::gen_tetris::gen_tetris(&mut t).map_err(|e| format!("generator: {:?}", e))?;
                let rawlib = layout21tetris::conv::raw::RawExporter::convert(lib, stk).map_err(|e| format!("{:?}", e))?;
                let r = rawlib.read().map_err(|_| "poisoned".to_string())?;
                Ok(dump_raw(&r))
            }
            _ => {
                // sometimes into a pre-supplied, PDK-style layer set (numbers with gaps, some names already present)
                let (l, pre) = gen_lef_import_case(&mut t);
                let pre = pre.map(|v| {
                    let mut ls = raw::Layers::default();
                    for (num, name) in v {
                        ls.add(raw::Layer::new(num, name));
                    }
                    layout21raw::utils::Ptr::new(ls)
                });
                let rawlib = raw::lef::LefImporter::import(&l, pre).map_err(|e| format!("{:?}", e))?;
                let mut d = dump_raw(&rawlib);
                let back = raw::lef::LefExporter::export(&rawlib).map_err(|e| format!("{:?}", e))?;
                d.push_str(&dump_lef(&back));
                Ok(d)
            }
        }
    });
    layout21utils::verif::install_clock(None);
    let (kind, dump) = match r {
        Ok(Ok(d)) => ("ok".to_string(), d),
        // an error's *text* may legitimately print unordered containers (Debug of a HashMap inside a message);
        // the outcome compared is "an error, of this kind", not its full rendering
        Ok(Err(e)) => ("err".to_string(), if std::env::var("L21_DUMP").is_ok() { format!("error = {}\nRAW: {}", err_key(&e), e) } else { format!("error = {}", err_key(&e)) }),
        Err(p) => ("panic".to_string(), format!("panic = {} {}", p.loc, truncate(&p.msg, 200))),
    };
    Outcome { kind, dump, clock_reads: reads.get(), dates_match_script: dates_ok, order_probe }
}

/// Coarse identity of an error: its text up to the first brace, per line, first three lines
/// plus a digest of the *multiset* of its alphanumeric tokens: a Debug dump of an unordered container inside
/// the message permutes tokens but keeps the multiset, whereas "a different layer / cell is blamed" changes it.
fn err_key(e: &str) -> String {
    let head = e.lines().take(3).map(|l| truncate(l.split('{').next().unwrap_or(""), 100)).collect::<Vec<_>>().join(" | ");
    // addresses printed by Debug of `Ptr`/`ByAddress` (0x7f..) are a debugging aid inside the message, not a result
    let is_addr = |t: &str| t.len() >= 8 && t.starts_with("0x") && t[2..].chars().all(|c| c.is_ascii_hexdigit());
    let mut toks: Vec<&str> = e.split(|c: char| !(c.is_alphanumeric() || c == '_' || c == '-')).filter(|t| !t.is_empty() && !is_addr(t)).collect();
    toks.sort_unstable();
    let mut d = Digest::new();
    for t in &toks {
        d.str(t);
    }
    format!("{} | tokens={} digest={:016x}", head, toks.len(), d.finish())
}

/// Entry point of the `c20-child` sub-command: one conversion in a separate process
pub fn child_main(args: &[String]) -> i32 {
    install_panic_hook();
    let conv: usize = args.get(2).and_then(|s| s.parse().ok()).unwrap_or(0);
    let hseed: u64 = args.get(3).and_then(|s| s.parse().ok()).unwrap_or(0);
    let clock: u64 = args.get(4).and_then(|s| s.parse().ok()).unwrap_or(0);
    // the tape comes as an argument, or on standard input when it is too long for one ("@stdin")
    let tape_text = match args.get(5).map(|s| s.as_str()) {
        Some("@stdin") => {
            let mut s = String::new();
            let _ = std::io::Read::read_to_string(&mut std::io::stdin(), &mut s);
            s
        }
        Some(s) => s.to_string(),
        None => String::new(),
    };
    let vals: Vec<u64> = tape_text.split(',').filter_map(|x| x.trim().parse().ok()).collect();
    match hashseed::with_hash_seed(hseed, move || convert_here(conv, vals, clock)) {
        Ok(o) => {
            println!("{} {:016x} {}", o.kind, fnv64(o.dump.as_bytes()), o.dump.len());
            if std::env::var("L21_DUMP").is_ok() {
                println!("{}", o.dump);
            }
            0
        }
        Err(_) => 2,
    }
}

impl Check for C20 {
    fn id(&self) -> &'static str {
        "C20"
    }
    fn level(&self) -> &'static str {
        "exploration"
    }
    fn runs(&self, tier: Tier) -> u64 {
        match tier {
            Tier::Quick => 20_000,
            Tier::Thorough => 1_000_000,
        }
    }
    fn rule(&self) -> String {
        "One run = one conversion input drawn from the tape (run index mod 7 selects GDS->raw on importable 1-5-cell hierarchies with references/arrays/labels in either listing order; raw->GDS and raw->proto on raw libraries with 1-8 named layers, layouts, instances and abstracts whose ports and blockage maps hold 1-8 layers each; LEF->raw->LEF on macros with multi-layer, multi-port pins and obstructions; gridded->raw on 1-4 gridded cells with instances, cuts, net assignments and abstracts over a five-metal stack; raw->LEF on the same raw libraries; LEF->raw->proto, whose outcome is an error that must name the same layer every time) converted under K configurations (K=4 quick, 16 thorough): each on a fresh thread whose SipHash keys come from a drawn hash seed through the getrandom seam, with a scripted clock (fixed; +1 s per read across a year boundary; backward jumps; +1 year per read); every run also converts, on one more fresh thread with configuration 0's seed and clock, the same input twice in a row and once more after converting and dropping a different input of the same kind (history independence: stale address-keyed caches, per-map keys); 1 run in 32 also repeats configuration 0 in a separate child process (different ASLR layout / pid). Outcome (canonical dump, or error text, or panic site) must be identical across configurations; dumps keep every order that belongs to the result and sort only map-typed fields; raw->GDS dumps exclude exactly the library's and structs' dates. evaluations = conversions executed; non-trivial = dump has >= 8 lines; distinct = distinct dump digests of configuration 0.".into()
    }
    fn assumptions(&self) -> Vec<String> {
        vec![
            "hash seeds act through std's weak getrandom symbol; verified live per run by comparing the iteration order of an 8-key HashMap across configurations (probe hash_order_probe_differs)".into(),
            "address-order dependence is only turned by the child-process runs (ASLR is not seedable natively)".into(),
            "panics and errors of a conversion are outcomes to be compared, not violations of this property".into(),
        ]
    }
    fn real_vs_stub(&self) -> Value {
        json!({"real": ["layout21raw GdsImporter/GdsExporter/ProtoExporter/LefImporter/LefExporter", "std HashMap + SipHash (RandomState)", "gds21 GdsLibrary::new / GdsDateTime::now call path"], "stub": ["OS entropy (getrandom seam)", "wall clock (verif::install_clock)", "process identity (child process)"]})
    }
    fn run(&self, inp: RunIn) -> RunOut {
        let mut wt = inp.wtape;
        let mut ft = inp.ftape;
        let mut out = RunOut::new();
        let conv = if let Some(c) = inp.extra.get("conv").and_then(|v| v.as_u64()) { c as usize } else { (inp.index % CONVS.len() as u64) as usize };
        out.replay_extra = json!({ "conv": conv });
        // materialise the input's tape once (the generated value itself is discarded)
        let vals: Vec<u64> = {
            let _ = guard(|| match conv {
                0 => {
                    gen_gds_importable(&mut wt);
                }
                1 => {
                    gen_raw(&mut wt, &RawOpts { allow_path_in_abstract: true, allow_pico: true });
                }
                2 => {
                    gen_raw(&mut wt, &RawOpts { allow_path_in_abstract: true, allow_pico: false });
                }
                5 => {
                    gen_raw(&mut wt, &RawOpts { allow_path_in_abstract: false, allow_pico: true });
                }
                4 => {
                    let _ = crate::gen_tetris::gen_tetris(&mut wt);
                }
                _ => {
                    gen_lef_import_case(&mut wt);
                }
            });
            wt.used()
        };
        let k = if inp.tier == Tier::Thorough { 16 } else { 4 };
        let mut outcomes: Vec<(u64, u64, Outcome)> = Vec::new();
        for j in 0..k {
            let hseed = if j == 0 { 0x1111_2222_3333_4444 } else { ft.bits() | 1 };
            let clock = if j == 0 { 0 } else { ft.draw(4) };
            let v = vals.clone();
            tick();
            match hashseed::with_hash_seed(hseed, move || convert_here(conv, v, clock)) {
                Ok(o) => outcomes.push((hseed, clock, o)),
                Err(_) => {
                    out.violation = Some(Violation { class: "harness-panic".into(), sig: "harness:conversion-thread-died".into(), detail: "conversion thread died outside guard".into(), artefact: Value::Null });
                    return out;
                }
            }
        }
        // history configurations (same hash seed and clock as configuration 0, one fresh thread):
        //  (a) the same input converted twice in a row; (b) a different input of the same kind converted and dropped first.
        // The result must not depend on what the thread converted before (stale caches keyed by addresses, per-map hash keys).
        let decoy: Vec<u64> = {
            let mut dt = Tape::record(ft.bits());
            let _ = guard(|| match conv {
                0 => {
                    gen_gds_importable(&mut dt);
                }
                1 => {
                    gen_raw(&mut dt, &RawOpts { allow_path_in_abstract: true, allow_pico: true });
                }
                2 => {
                    gen_raw(&mut dt, &RawOpts { allow_path_in_abstract: true, allow_pico: false });
                }
                5 => {
                    gen_raw(&mut dt, &RawOpts { allow_path_in_abstract: false, allow_pico: true });
                }
                4 => {
                    let _ = crate::gen_tetris::gen_tetris(&mut dt);
                }
                _ => {
                    gen_lef_import_case(&mut dt);
                }
            });
            dt.used()
        };
        let (v1, v2, dv) = (vals.clone(), vals.clone(), decoy.clone());
        tick();
        let hist = hashseed::with_hash_seed(0x1111_2222_3333_4444, move || {
            let first = convert_here(conv, v1.clone(), 0);
            let again = convert_here(conv, v1, 0);
            let _decoy = convert_here(conv, dv, 0);
            let after_decoy = convert_here(conv, v2, 0);
            (first, again, after_decoy)
        });
        let mut history: Vec<(&str, Outcome)> = Vec::new();
        match hist {
            Ok((first, again, after)) => {
                history.push(("first-in-thread", first));
                history.push(("second-time-in-the-same-thread", again));
                history.push(("after-converting-another-input-in-the-same-thread", after));
            }
            Err(_) => {
                out.violation = Some(Violation { class: "harness-panic".into(), sig: "harness:conversion-thread-died".into(), detail: "history thread died outside guard".into(), artefact: Value::Null });
                return out;
            }
        }
        out.evals = k + 4;
        let base = outcomes[0].2.clone();
        for (label, o) in &history {
            out.probes.hit(&format!("history_{}", label));
            if out.violation.is_none() && (o.kind != base.kind || o.dump != base.dump) {
                let (path, a, b) = first_diff_line(&base.dump, &o.dump).unwrap_or(("outcome-kind".into(), base.kind.clone(), o.kind.clone()));
                out.violation = Some(Violation {
                    class: "nondeterminism".into(),
                    sig: format!("{}:history:{}", CONVS[conv], sanitize(&path)),
                    detail: format!("{} gives a different result {} (same hash seed, same clock): first difference at `{}`", CONVS[conv], label, path),
                    artefact: json!({"conversion": CONVS[conv], "fresh_thread_line": truncate(&a, 600), "history_line": truncate(&b, 600), "history": label}),
                });
            }
        }
        out.probes.hit(&format!("conv_{}_{}", CONVS[conv], base.kind));
        let mut d = Digest::new();
        d.str(&base.dump);
        for (hs, ck, o) in outcomes.iter().skip(1) {
            if o.order_probe != base.order_probe {
                out.probes.hit("hash_order_probe_differs");
            } else {
                out.probes.hit("hash_order_probe_same");
            }
            if o.clock_reads > 0 {
                out.probes.add("clock_reads", o.clock_reads);
                if o.clock_reads >= 2 && *ck == 1 {
                    out.probes.hit("two_clock_reads_straddled_a_second");
                }
            }
            if o.dates_match_script == Some(true) {
                out.probes.hit("clock_seam_live_dates_follow_script");
            }
            if o.kind != base.kind || o.dump != base.dump {
                let (path, a, b) = first_diff_line(&base.dump, &o.dump).unwrap_or(("outcome-kind".into(), base.kind.clone(), o.kind.clone()));
                out.violation = Some(Violation {
                    class: "nondeterminism".into(),
                    sig: format!("{}:{}", CONVS[conv], sanitize(&path)),
                    detail: format!("{} gives different results under hash seed {:#x}/clock script {} and hash seed {:#x}/clock script {}: first difference at `{}`", CONVS[conv], outcomes[0].0, outcomes[0].1, hs, ck, path),
                    artefact: json!({"conversion": CONVS[conv], "config_a": {"hash_seed": outcomes[0].0, "clock_script": outcomes[0].1, "line": truncate(&a, 600)}, "config_b": {"hash_seed": hs, "clock_script": ck, "line": truncate(&b, 600)}, "input_dump_a": truncate(&base.dump, 6000)}),
                });
                break;
            }
        }
        // separate process: same input, configuration 0
        if out.violation.is_none() && (inp.index % 32 == 7 || inp.extra.get("child").is_some()) {
            tick();
            let exe = std::env::current_exe().expect("exe");
            let tape_arg = vals.iter().map(|v| v.to_string()).collect::<Vec<_>>().join(",");
            let o = if tape_arg.len() < 60_000 {
                std::process::Command::new(exe).arg("c20-child").arg(conv.to_string()).arg(outcomes[0].0.to_string()).arg("0").arg(if tape_arg.is_empty() { "-".to_string() } else { tape_arg }).stdin(std::process::Stdio::null()).stderr(std::process::Stdio::null()).output()
            } else {
                // one argument may not exceed 128 KiB: long tapes go through a pipe, written from a helper thread
                std::process::Command::new(exe).arg("c20-child").arg(conv.to_string()).arg(outcomes[0].0.to_string()).arg("0").arg("@stdin").stdin(std::process::Stdio::piped()).stdout(std::process::Stdio::piped()).stderr(std::process::Stdio::null()).spawn().and_then(|mut ch| {
                    let mut si = ch.stdin.take().expect("child stdin");
                    let w = std::thread::spawn(move || {
                        let _ = std::io::Write::write_all(&mut si, tape_arg.as_bytes());
                    });
                    let r = ch.wait_with_output();
                    let _ = w.join();
                    r
                })
            };
            match o {
                Ok(o) if o.status.success() => {
                    out.probes.hit("child_process_runs");
                    out.evals += 1;
                    let line = String::from_utf8_lossy(&o.stdout).lines().last().unwrap_or("").to_string();
                    let want = format!("{} {:016x} {}", base.kind, fnv64(base.dump.as_bytes()), base.dump.len());
                    if line != want {
                        out.violation = Some(Violation { class: "nondeterminism".into(), sig: format!("{}:across-processes", CONVS[conv]), detail: format!("{} gives a different result in a separate process (same hash seed and clock): `{}` vs `{}`", CONVS[conv], want, line), artefact: json!({"input_dump": truncate(&base.dump, 6000)}) });
                        out.replay_extra = json!({ "conv": conv, "child": true });
                    }
                }
                _ => {
                    out.violation = Some(Violation { class: "harness-panic".into(), sig: "harness:child-process-failed".into(), detail: "c20-child could not be run".into(), artefact: Value::Null });
                }
            }
        }
        if inp.want_sample {
            out.sample = Some(json!({"conversion": CONVS[conv], "configurations": outcomes.iter().map(|(h, c, o)| json!({"hash_seed": format!("{:#x}", h), "clock_script": c, "outcome": o.kind, "hash_order_of_probe_map": o.order_probe, "clock_reads": o.clock_reads})).collect::<Vec<_>>(), "dump_head": base.dump.lines().take(14).collect::<Vec<_>>()}));
        }
        d.u64(out.violation.is_some() as u64);
        out.digest = d.finish();
        out.key = fnv64(base.dump.as_bytes());
        out.nontrivial = base.dump.lines().count() >= 8;
        out.wtape = vals;
        out.ftape = ft.used();
        out.steps = k;
        out
    }
}
