//! C02 — bytes written for a library are a well-formed GDSII stream with that content.
//! Real writer -> SimSink; oracle = independent reference decoder R-gds.

use super::gdscommon::*;
use super::iocfg::*;
use crate::engine::*;
use crate::gdsref;
use crate::gen_gds::*;
use crate::rng::fnv64;
use crate::simio::*;
use serde_json::{json, Value};

pub struct C02;

/// Signature of a reference-decoder complaint: category + record names, digits erased
pub fn ref_err_sig(e: &str) -> String {
    let t: String = e.chars().filter(|c| !c.is_ascii_digit()).collect();
    sanitize(&truncate(&t, 70))
}

impl Check for C02 {
    fn id(&self) -> &'static str {
        "C02"
    }
    fn level(&self) -> &'static str {
        "exploration"
    }
    fn runs(&self, tier: Tier) -> u64 {
        match tier {
            Tier::Quick => 200_000,
            Tier::Thorough => 80_000_000,
        }
    }
    fn rule(&self) -> String {
        "Same G-gds tapes as C01. The real writer's byte stream (fault-free sink) is scanned (record lengths even, >= 4, tiling the stream exactly, last record ENDLIB, nothing after it), every (record type, data type, payload length) is checked against the specification table, the record sequence is recognised by a recursive-descent parser of the spec BNF, and the decoded neutral model (big-endian ints, exact excess-64 base-16 reals, STRANS bits 0x8000/0x0004/0x0002, NUL pad only on odd strings, date order) is compared with the model derived field-by-field from the library. In the benign configuration the same tape is written through short-write/EINTR/chunked sinks and through SimFs::save with a BufWriter-capacity knob: accepted bytes must be identical (conservation). Non-trivial = >=1 struct and (fault-free or >=1 benign fault fired); distinct = distinct (structure digest, schedule digest).".into()
    }
    fn assumptions(&self) -> Vec<String> {
        vec!["R-gds (sim/src/gdsref.rs) is written from the GDSII stream format description only and shares no code with gds21; its real codec is cross-checked against the repository's sample files in `selftest refcodec`".into(), "terminal faults are not applied: the statement speaks of the bytes produced when writing succeeds".into(), "XY point-count limits of the 1980s specification (<= 200 vertices) are not enforced".into()]
    }
    fn real_vs_stub(&self) -> Value {
        json!({"real": ["gds21 writer", "GdsFloat64::encode", "std BufWriter/write_all"], "stub": ["sink answers (SimSink)", "file system (SimFs)"], "reference_model": ["R-gds scanner, spec table, BNF recogniser, exact real decoder"]})
    }
    fn run(&self, inp: RunIn) -> RunOut {
        let mut wt = inp.wtape;
        let mut ft = inp.ftape;
        let cfg = if ft.chance(1, 2) { Cfg::Benign } else { Cfg::FaultFree };
        let (lib, _sw) = gen_lib(&mut wt, StrProfile::Gds);
        let io = new_io(ft, inp.want_sample);
        let mut out = RunOut::new();
        out.probes.hit(&format!("cfg_{}", cfg.name()));
        let sd = fnv64(describe(&lib).as_bytes());
        let nonempty = !lib.structs.is_empty();
        let art = |lib: &gds21::GdsLibrary, bytes: &[u8]| json!({"library": lib_artefact(lib), "bytes": hex(bytes)});

        // history step (1 run in 8): an earlier write on this thread that the encoder refuses part-way (a boundary of
        // 10 000 points does not fit a record); its outcome is not judged, the writes below must be unaffected
        if io.borrow_mut().ftape.chance(1, 8) {
            let mut refused = gds21::GdsLibrary::new("refused_earlier");
            let mut st = gds21::GdsStruct::new("too_big");
            st.elems.push(gds21::GdsElement::GdsBoundary(gds21::GdsBoundary { layer: 1, datatype: 0, xy: (0..10_000).map(|i| gds21::GdsPoint::new(i, -i)).collect(), ..Default::default() }));
            refused.structs.push(st);
            let mut junk: Vec<u8> = Vec::new();
            match guard(|| refused.write(&mut junk)) {
                Ok(Err(_)) => out.probes.hit("history:refused_write_before_the_judged_writes"),
                _ => out.probes.hit("history:decoy_write_not_refused"),
            }
        }
        let sink = SimSink::new(&io, Policy::plain());
        let store = sink.store.clone();
        let bytes0 = match guard(|| lib.write(sink)) {
            Err(p) => {
                out.violation = Some(panic_violation("GdsLibrary::write", &p, json!({"library": lib_artefact(&lib)})));
                return super::finish(out, &io, &wt, sd, cfg, 0, nonempty);
            }
            Ok(Err(_)) => {
                out.probes.hit("write_returned_err");
                return super::finish(out, &io, &wt, sd, cfg, 1, false);
            }
            Ok(Ok(())) => store.borrow().clone(),
        };
        // framing + table + grammar + content
        let mut pr = gdsref::DecodeProbes::default();
        let decoded = gdsref::scan(&bytes0, true).and_then(|recs| gdsref::decode(&recs, &mut pr));
        out.probes.add("records_decoded", pr.records);
        out.probes.add("unnormalised_reals_seen", pr.unnormalised_reals);
        out.probes.add("nul_padded_strings", pr.padded_strings);
        match decoded {
            Err(e) => {
                out.violation = Some(Violation { class: "malformed-stream".into(), sig: format!("ref:{}", ref_err_sig(&e)), detail: format!("reference decoder rejects the written stream: {}", e), artefact: art(&lib, &bytes0) });
                return super::finish(out, &io, &wt, sd, cfg, 2, nonempty);
            }
            Ok(n) => {
                let want = model_of(&lib);
                if let Some(d) = gdsref::diff(&want, &n) {
                    out.violation = Some(Violation { class: "refmodel-mismatch".into(), sig: format!("ref-content:{}", d), detail: format!("reference decoder recovers different content at {}", d), artefact: art(&lib, &bytes0) });
                    return super::finish(out, &io, &wt, sd, cfg, 3, nonempty);
                }
            }
        }
        if inp.want_sample {
            out.sample = Some(json!({"configuration": cfg.name(), "library": lib_artefact(&lib), "stream_bytes": bytes0.len(), "records": pr.records, "first_bytes": hex(&bytes0[..bytes0.len().min(64)])}));
        }
        let mut extra = 0;
        if cfg == Cfg::Benign {
            let pol = benign(&mut io.borrow_mut().ftape);
            extra ^= policy_digest(&pol);
            let sink = SimSink::new(&io, pol.clone());
            let st = sink.store.clone();
            match guard(|| lib.write(sink)) {
                Err(p) => out.violation = Some(panic_violation("GdsLibrary::write(benign)", &p, json!({"library": lib_artefact(&lib)}))),
                Ok(Err(e)) => out.violation = Some(Violation { class: "not-transparent".into(), sig: "write/benign/result".into(), detail: format!("write fails under benign schedule {:?}: {}", pol, e), artefact: art(&lib, &[]) }),
                Ok(Ok(())) => {
                    if *st.borrow() != bytes0 {
                        let at = st.borrow().iter().zip(bytes0.iter()).position(|(a, b)| a != b).unwrap_or(st.borrow().len().min(bytes0.len()));
                        out.violation = Some(Violation { class: "not-conserved".into(), sig: "write/benign/bytes".into(), detail: format!("bytes accepted under benign schedule {:?} differ from the fault-free stream at offset {} (lens {} vs {})", pol, at, st.borrow().len(), bytes0.len()), artefact: art(&lib, &bytes0) });
                    }
                }
            }
            // history: an attempt that fails at a drawn byte offset, then the same library written again on this thread —
            // the second stream must be the well-formed one (no residue of the failed attempt)
            if out.violation.is_none() && !bytes0.is_empty() {
                let (tpol, tlabel) = terminal_write(&mut io.borrow_mut().ftape, bytes0.len() as u64);
                extra ^= policy_digest(&tpol).rotate_left(29);
                let failing = SimSink::new(&io, tpol);
                if let Ok(Err(_)) = guard(|| lib.write(failing)) {
                    let sink = SimSink::new(&io, Policy::plain());
                    let st2 = sink.store.clone();
                    match guard(|| lib.write(sink)) {
                        Ok(Ok(())) if *st2.borrow() == bytes0 => out.probes.hit("write_after_failed_write_identical"),
                        Ok(Ok(())) => out.violation = Some(Violation { class: "not-conserved".into(), sig: "write/after-failed-write/bytes".into(), detail: format!("after a write that failed ({}), the next write on the same thread produced {} bytes that differ from the {}-byte stream", tlabel, st2.borrow().len(), bytes0.len()), artefact: art(&lib, &bytes0) }),
                        Ok(Err(e)) => out.violation = Some(Violation { class: "not-transparent".into(), sig: "write/after-failed-write/result".into(), detail: format!("a fault-free write fails after an earlier failed write: {}", e), artefact: art(&lib, &[]) }),
                        Err(p) => out.violation = Some(panic_violation("GdsLibrary::write(after a failed write)", &p, json!({"library": lib_artefact(&lib)}))),
                    }
                }
            }
            // a consumed sink with a write-back cache and interrupted flushes: success must mean the whole stream is durable
            if out.violation.is_none() {
                let pol = writeback_sink(&mut io.borrow_mut().ftape);
                extra ^= policy_digest(&pol).rotate_left(17);
                let sink = SimSink::new(&io, pol.clone());
                let st = sink.store.clone();
                match guard(|| lib.write(sink)) {
                    Err(p) => out.violation = Some(panic_violation("GdsLibrary::write(writeback)", &p, json!({"library": lib_artefact(&lib)}))),
                    Ok(Err(_)) => {
                        out.probes.hit("write_flush_interrupted_err_reported");
                        // history: the write after a failed one must still be the same well-formed stream
                        let sink = SimSink::new(&io, Policy::plain());
                        let st2 = sink.store.clone();
                        if let Ok(Ok(())) = guard(|| lib.write(sink)) {
                            if *st2.borrow() != bytes0 {
                                out.violation = Some(Violation { class: "not-conserved".into(), sig: "write/retry-after-failure/bytes".into(), detail: format!("the write following a failed write on the same thread produced {} bytes instead of the {}-byte stream", st2.borrow().len(), bytes0.len()), artefact: art(&lib, &bytes0) });
                            }
                        }
                    }
                    Ok(Ok(())) => {
                        if *st.borrow() != bytes0 {
                            out.violation = Some(Violation { class: "not-conserved".into(), sig: "write/writeback/bytes".into(), detail: format!("write reported success but the sink holds {} of {} bytes after {} interrupted flush call(s): the stream does not end with ENDLIB", st.borrow().len(), bytes0.len(), pol.flush_eintr), artefact: art(&lib, &bytes0) });
                        }
                    }
                }
            }
            if out.violation.is_none() {
                let fs = SimFs::new(&io);
                let _g = fs.install();
                let cap = bufcap(&mut io.borrow_mut().ftape);
                layout21utils::verif::set_bufwriter_capacity(cap);
                let wpol = benign(&mut io.borrow_mut().ftape);
                extra ^= policy_digest(&wpol).rotate_left(5) ^ cap.unwrap_or(0) as u64;
                fs.plan(super::c01::OUT, FilePlan { write: wpol.clone(), ..Default::default() });
                match guard(|| lib.save(fs.sp(super::c01::OUT))) {
                    Err(p) => out.violation = Some(panic_violation("GdsLibrary::save(benign)", &p, json!({"library": lib_artefact(&lib)}))),
                    Ok(Err(e)) => out.violation = Some(Violation { class: "not-transparent".into(), sig: "save/benign/result".into(), detail: format!("save fails under benign schedule {:?} cap {:?}: {}", wpol, cap, e), artefact: art(&lib, &[]) }),
                    Ok(Ok(())) => {
                        if fs.get(super::c01::OUT).as_deref() != Some(&bytes0[..]) {
                            out.violation = Some(Violation { class: "not-conserved".into(), sig: "save/benign/bytes".into(), detail: format!("file bytes under benign schedule {:?} cap {:?} differ from the fault-free stream", wpol, cap), artefact: art(&lib, &bytes0) });
                        }
                    }
                }
            }
        }
        if inp.want_sample {
            if let Some(s) = out.sample.as_mut() {
                s["event_log"] = json!(io.borrow().trace.clone().unwrap_or_default().into_iter().take(30).collect::<Vec<_>>());
            }
        }
        super::finish(out, &io, &wt, sd, cfg, extra, nonempty)
    }
}
