//! C18 — JSON and YAML copies of GDSII and LEF libraries are lossless.
//! Real `SerializationFormat::{to_string, from_str, save, open}` and the
//! `to_markup` / `from_markup` pipeline over SimFs.

use super::gdscommon::*;
use super::iocfg::*;
use crate::engine::*;
use crate::gdsref;
use crate::gen_gds::*;
use crate::rng::fnv64;
use crate::simio::*;
use gds21::GdsLibrary;
use layout21converters::gds_serialization::{from_markup, to_markup, FromMarkupOptions, ToMarkupOptions};
use layout21utils::SerializationFormat;
use serde_json::{json, Value};

pub struct C18;

const A_GDS: &str = "/sim/a.gds";
const A_MK: &str = "/sim/a.markup";
const B_GDS: &str = "/sim/b.gds";
const L_MK: &str = "/sim/lib.markup";

fn fmt_name(f: SerializationFormat) -> &'static str {
    match f {
        SerializationFormat::Json => "json",
        SerializationFormat::Yaml => "yaml",
        SerializationFormat::Toml => "toml",
    }
}

/// Equality as the statement defines it: derived `==` plus bit-identical doubles
fn gds_equal(a: &GdsLibrary, b: &GdsLibrary) -> Option<String> {
    if a != b {
        return Some(first_diff(a, b));
    }
    gdsref::diff(&model_of(a), &model_of(b)).map(|d| format!("bits:{}", d))
}

impl Check for C18 {
    fn id(&self) -> &'static str {
        "C18"
    }
    fn level(&self) -> &'static str {
        "exploration"
    }
    fn runs(&self, tier: Tier) -> u64 {
        match tier {
            Tier::Quick => 40_000,
            Tier::Thorough => 4_000_000,
        }
    }
    fn rule(&self) -> String {
        "G-gds libraries whose strings are drawn from JSON/YAML-special material (quotes, colon, hash, backslash, indicator characters, leading/trailing blanks, tab, newline, `~`, `null`, `true`, `1e3`, `0x10`, non-ASCII, empty) and whose reals are boundary-heavy in-range doubles, and reader-image LEF libraries from G-lef, crossed with {Json, Yaml}: to_string->from_str; save->open on SimFs; and the gds->markup->gds pipeline (to_markup, from_markup) over three simulated files, fault-free, under benign schedules (short/EINTR/chunk/BufWriter capacity) and with terminal faults (EIO/ENOSPC/flush/create on save, EIO on open). Non-trivial = non-empty library and (fault-free or >=1 fault fired); distinct = distinct (structure digest, format, schedule digest).".into()
    }
    fn assumptions(&self) -> Vec<String> {
        vec![
            "C0 controls other than tab/newline and U+0085/U+2028/U+2029 are not drawn".into(),
            "torn-file acceptance after a failed save is not asserted (the property does not promise atomic saves)".into(),
            "to_markup's documented panics (`Couldn't interpret GDS data`, `Could not save output file`) count as reported failures under terminal faults only".into(),
        ]
    }
    fn real_vs_stub(&self) -> Value {
        json!({"real": ["layout21utils::ser (to_string/from_str/save/open)", "serde_json, serde_yaml", "layout21converters::gds_serialization::{to_markup, from_markup}", "gds21 reader/writer", "lef21 reader"], "stub": ["file system (SimFs)"]})
    }
    fn run(&self, inp: RunIn) -> RunOut {
        let mut wt = inp.wtape;
        let mut ft = inp.ftape;
        let cfg = Cfg::draw(&mut ft);
        let fmt = if wt.chance(1, 2) { SerializationFormat::Json } else { SerializationFormat::Yaml };
        let use_lef = wt.chance(1, 3);
        let refused_first = wt.chance(1, 4);
        if use_lef {
            let (text, _sw) = crate::gen_lef::gen_lef_text(&mut wt, false);
            let io = new_io(ft, inp.want_sample);
            let mut out = RunOut::new();
            out.probes.hit(&format!("cfg_{}", cfg.name()));
            out.probes.hit(&format!("fmt_{}", fmt_name(fmt)));
            let lib = {
                let fs = SimFs::new(&io);
                let _g = fs.install();
                fs.put("/sim/src.lef", text.clone().into_bytes());
                match guard(|| lef21::LefLibrary::open(fs.sp("/sim/src.lef"))) {
                    Ok(Ok(l)) => l,
                    _ => {
                        out.probes.hit("lef_text_not_in_reader_image");
                        return super::finish(out, &io, &wt, 0, cfg, 0, false);
                    }
                }
            };
            out.probes.hit("lef_libraries");
            let sd = fnv64(format!("{} {}", super::c05::describe_lef(&lib), fmt_name(fmt)).as_bytes());
            let nonempty = !lib.macros.is_empty() || !lib.sites.is_empty() || !lib.vias.is_empty();
            let art = super::c05::lef_artefact(&lib);
            let eq = |a: &lef21::LefLibrary, b: &lef21::LefLibrary| if a == b { None } else { Some(first_diff(a, b)) };
            if refused_first {
                refused_serialisation(fmt, &mut out);
            }
            let (out, extra) = ser_files(&io, out, cfg, fmt, &lib, &eq, &art, "lef", inp.want_sample);
            return super::finish(out, &io, &wt, sd, cfg, extra, nonempty);
        }
        let (lib, _sw) = gen_lib(&mut wt, StrProfile::Markup);
        let io = new_io(ft, inp.want_sample);
        let mut out = RunOut::new();
        out.probes.hit(&format!("cfg_{}", cfg.name()));
        out.probes.hit(&format!("fmt_{}", fmt_name(fmt)));
        out.probes.hit("gds_libraries");
        let sd = fnv64(format!("{} {}", describe(&lib), fmt_name(fmt)).as_bytes());
        let nonempty = !lib.structs.is_empty();
        let arte = lib_artefact(&lib);
        let eq = |a: &GdsLibrary, b: &GdsLibrary| gds_equal(a, b);
        if refused_first {
            refused_serialisation(fmt, &mut out);
        }
        let (mut out, extra) = ser_files(&io, out, cfg, fmt, &lib, &eq, &arte, "gds", inp.want_sample);
        let art = |lib: &GdsLibrary, more: Value| json!({"format": fmt_name(fmt), "library": lib_artefact(lib), "more": more});
        let v = |class: &str, sig: String, detail: String, more: Value| Violation { class: class.into(), sig, detail, artefact: art(&lib, more) };
        let text_len = fmt.to_string(&lib).map(|s| s.len()).unwrap_or(0);
        let fs = SimFs::new(&io);
        let _g = fs.install();
        // ---- C: the two-tool pipeline gds -> markup -> gds (fault-free and benign only; terminal faults per stage)
        if out.violation.is_none() {
            let mut bytes0 = Vec::new();
            if lib.write(&mut bytes0).is_ok() {
                fs.put(A_GDS, bytes0.clone());
                let stage_pol = |io: &Io| match cfg {
                    Cfg::FaultFree => Policy::plain(),
                    _ => benign(&mut io.borrow_mut().ftape),
                };
                let term_stage = if cfg == Cfg::Terminal { 1 + io.borrow_mut().ftape.draw(3) } else { 0 }; // which file gets the terminal fault
                let mk = |io: &Io, stage: u64, len: u64, write: bool| -> Policy {
                    if term_stage == stage {
                        if write {
                            terminal_write(&mut io.borrow_mut().ftape, len).0
                        } else {
                            terminal_read(&mut io.borrow_mut().ftape, len, true)
                        }
                    } else {
                        stage_pol(io)
                    }
                };
                fs.plan(A_GDS, FilePlan { read: mk(&io, 1, bytes0.len() as u64, false), ..Default::default() });
                fs.plan(A_MK, FilePlan { write: mk(&io, 2, text_len as u64, true), read: stage_pol(&io), ..Default::default() });
                fs.plan(B_GDS, FilePlan { write: mk(&io, 3, bytes0.len() as u64, true), ..Default::default() });
                let before = io.borrow().errors_returned.len();
                let verbose = io.borrow_mut().ftape.chance(1, 3);
                let o1 = ToMarkupOptions { gds: fs.sp_utf8(A_GDS), fmt: fmt_name(fmt).into(), out: fs.sp_utf8(A_MK), verbose };
                let r1 = guard(|| to_markup(&o1).map_err(|e| e.to_string()));
                let fired1 = io.borrow().errors_returned.len() > before;
                let ok1 = match r1 {
                    Err(p) => {
                        let documented = p.msg.starts_with("Couldn't interpret GDS data") || p.msg.starts_with("Could not save output file");
                        if documented && fired1 {
                            out.probes.hit("to_markup_documented_panic_on_fault");
                        } else {
                            out.violation = Some(panic_violation("to_markup", &p, art(&lib, Value::Null)));
                        }
                        false
                    }
                    Ok(Err(e)) => {
                        if !fired1 {
                            out.violation = Some(v("not-transparent", format!("{}:to_markup/{}/result", fmt_name(fmt), cfg.name()), format!("to_markup fails without a terminal fault: {}", e), Value::Null));
                        }
                        false
                    }
                    Ok(Ok(())) => true,
                };
                if ok1 && out.violation.is_none() {
                    let o2 = FromMarkupOptions { gds: fs.sp_utf8(B_GDS), fmt: fmt_name(fmt).into(), inp: fs.sp_utf8(A_MK), verbose };
                    let before2 = io.borrow().errors_returned.len();
                    let r2 = guard(|| from_markup(&o2).map_err(|e| e.to_string()));
                    let fired2 = io.borrow().errors_returned.len() > before2;
                    match r2 {
                        Err(p) => out.violation = Some(panic_violation("from_markup", &p, art(&lib, Value::Null))),
                        Ok(Err(e)) => {
                            if fired1 || fired2 {
                                out.probes.hit("pipeline_terminal_err_reported");
                            } else {
                                out.violation = Some(v("not-transparent", format!("{}:from_markup/{}/result", fmt_name(fmt), cfg.name()), format!("from_markup fails without a terminal fault: {}", e), Value::Null));
                            }
                        }
                        Ok(Ok(())) => {
                            if fs.get(B_GDS).as_deref() != Some(&bytes0[..]) {
                                let cls = if fired1 || fired2 { "ack-not-durable" } else { "mismatch" };
                                out.violation = Some(v(cls, format!("{}:pipeline-bytes/{}", fmt_name(fmt), cfg.name()), format!("gds->{}->gds does not reproduce the GDSII bytes (got {:?} bytes, want {}; disk errors fired: {})", fmt_name(fmt), fs.get(B_GDS).map(|b| b.len()), bytes0.len(), fired1 || fired2), Value::Null));
                            } else {
                                out.probes.hit("pipeline_bytes_identical");
                            }
                        }
                    }
                }
            }
        }
        super::finish(out, &io, &wt, sd, cfg, extra, nonempty)
    }
}

/// to_string->from_str and save->open (fault-free / benign / terminal) for any serialisable library type
#[allow(clippy::too_many_arguments)]
/// History step: an earlier call of the same helper, on this thread, that fails after it has produced some
/// output (a map whose keys no markup format can spell as object keys, behind a few well-formed entries).
/// The value is not a library and the outcome is not judged; the judged calls that follow must behave as
/// if it had not happened.
fn refused_serialisation(fmt: SerializationFormat, out: &mut RunOut) {
    #[derive(serde::Serialize)]
    struct Decoy {
        name: String,
        units: [f64; 2],
        bad: std::collections::BTreeMap<(i32, i32), Vec<u8>>,
    }
    let mut bad = std::collections::BTreeMap::new();
    bad.insert((1, 2), vec![3u8; 40]);
    let d = Decoy { name: "decoy".into(), units: [1e-3, 1e-9], bad };
    for f in [fmt, SerializationFormat::Json] {
        match guard(|| f.to_string(&d)) {
            Ok(Err(_)) => out.probes.hit("history:refused_serialisation_before_the_judged_calls"),
            Ok(Ok(_)) => out.probes.hit("history:decoy_serialisation_accepted"),
            Err(_) => out.probes.hit("history:decoy_serialisation_panicked"),
        }
    }
}

fn ser_files<T: serde::Serialize + serde::de::DeserializeOwned + layout21utils::SerdeFile>(io: &Io, mut out: RunOut, cfg: Cfg, fmt: SerializationFormat, lib: &T, eq: &dyn Fn(&T, &T) -> Option<String>, arte: &Value, kind: &str, want_sample: bool) -> (RunOut, u64) {
    let art = |more: Value| json!({"format": fmt_name(fmt), "kind": kind, "library": arte.clone(), "more": more});
    let fk = format!("{}:{}", fmt_name(fmt), kind);
    let v = |class: &str, sig: String, detail: String, more: Value| Violation { class: class.into(), sig, detail, artefact: art(more) };
        // ---- A: in-memory to_string -> from_str
        let text = match guard(|| fmt.to_string(lib)) {
            Err(p) => {
                out.violation = Some(panic_violation("SerializationFormat::to_string", &p, art(Value::Null)));
                return (out, 0);
            }
            Ok(Err(e)) => {
                out.violation = Some(v("serialise-error", format!("{}:to_string", fk), format!("to_string failed: {}", e), Value::Null));
                return (out, 1);
            }
            Ok(Ok(s)) => s,
        };
        match guard(|| fmt.from_str::<T>(&text)) {
            Err(p) => out.violation = Some(panic_violation("SerializationFormat::from_str", &p, art(json!({"text": truncate(&text, 4000)})))),
            Ok(Err(e)) => out.violation = Some(v("load-error", format!("{}:from_str", fk), format!("from_str fails on to_string output: {}", truncate(&e.to_string(), 300)), json!({"text": truncate(&text, 4000)}))),
            Ok(Ok(l2)) => {
                if let Some(d) = eq(lib, &l2) {
                    out.violation = Some(v("mismatch", format!("{}:string:{}", fk, d), format!("to_string->from_str changes the library at {}", d), json!({"text": truncate(&text, 4000)})));
                }
            }
        }
        if out.violation.is_some() {
            return (out, 2);
        }
        if want_sample {
            out.sample = Some(json!({"configuration": cfg.name(), "format": fmt_name(fmt), "library": arte.clone(), "markup_len": text.len()}));
        }
        // ---- B: files
        let fs = SimFs::new(&io);
        let _g = fs.install();
        let mut extra = 0u64;
        let (wpol, rpol, wlabel) = match cfg {
            Cfg::FaultFree => (Policy::plain(), Policy::plain(), ""),
            Cfg::Benign => {
                let cap = bufcap(&mut io.borrow_mut().ftape);
                layout21utils::verif::set_bufwriter_capacity(cap);
                extra ^= cap.unwrap_or(0) as u64;
                let w = benign(&mut io.borrow_mut().ftape);
                let r = benign(&mut io.borrow_mut().ftape);
                (w, r, "")
            }
            Cfg::Terminal => {
                let cap = bufcap(&mut io.borrow_mut().ftape);
                layout21utils::verif::set_bufwriter_capacity(cap);
                extra ^= cap.unwrap_or(0) as u64;
                // the terminal fault sits either on the save side or on the open side
                if io.borrow_mut().ftape.chance(1, 2) {
                    let (w, l) = terminal_write(&mut io.borrow_mut().ftape, text.len() as u64);
                    (w, Policy::plain(), l)
                } else {
                    let r = terminal_read(&mut io.borrow_mut().ftape, text.len() as u64, false);
                    (Policy::plain(), r, "")
                }
            }
        };
        extra ^= policy_digest(&wpol) ^ policy_digest(&rpol).rotate_left(11);
        let create_err = cfg == Cfg::Terminal && io.borrow_mut().ftape.chance(1, 12);
        fs.plan(L_MK, FilePlan { write: wpol.clone(), read: Policy::plain(), create_err: if create_err { Some(std::io::ErrorKind::PermissionDenied) } else { None }, ..Default::default() });
        let before = io.borrow().errors_returned.len();
        // either entry point: SerializationFormat::save or the SerdeFile trait method
        let via_trait = io.borrow_mut().ftape.chance(1, 2);
        let mut retry = false;
        let saved = match guard(|| if via_trait { layout21utils::SerdeFile::save(lib, fs.sp(L_MK), fmt) } else { fmt.save(lib, fs.sp(L_MK)) }) {
            Err(p) => {
                out.violation = Some(panic_violation("SerializationFormat::save", &p, art(Value::Null)));
                false
            }
            Ok(Err(e)) => {
                if cfg == Cfg::Terminal && io.borrow().errors_returned.len() > before {
                    out.probes.hit("save_terminal_err_reported");
                    retry = true;
                } else {
                    out.violation = Some(v("not-transparent", format!("{}:save/{}/result", fk, cfg.name()), format!("save fails without a terminal fault: {}", e), Value::Null));
                }
                false
            }
            Ok(Ok(())) => true,
        };
        if retry {
            // history step: after the reported failure the same value is saved again, on the same thread, to a healthy
            // file; that attempt must succeed and the file must load back equal
            fs.plan(L_MK, FilePlan::default());
            match guard(|| fmt.save(lib, fs.sp(L_MK))) {
                Err(p) => out.violation = Some(panic_violation("SerializationFormat::save(retry after a failed save)", &p, art(Value::Null))),
                Ok(Err(e)) => out.violation = Some(v("not-transparent", format!("{}:save/after-failed-save/result", fk), format!("saving again after a failed save fails on a healthy file: {}", e), Value::Null)),
                Ok(Ok(())) => {
                    out.probes.hit("history:save_again_after_failed_save");
                    match guard(|| fmt.open::<T>(fs.sp(L_MK))) {
                        Err(p) => out.violation = Some(panic_violation("SerializationFormat::open(after retry)", &p, art(Value::Null))),
                        Ok(Err(e)) => out.violation = Some(v("load-error", format!("{}:save/after-failed-save/open", fk), format!("the file saved after a failed save does not load: {}", truncate(&e.to_string(), 300)), Value::Null)),
                        Ok(Ok(l2)) => {
                            if let Some(d) = eq(lib, &l2) {
                                out.violation = Some(v("mismatch", format!("{}:save/after-failed-save:{}", fk, d), format!("the file saved after a failed save loads to a different value at {}", d), Value::Null));
                            }
                        }
                    }
                }
            }
        }
        if saved {
            let fired = io.borrow().errors_returned.len() > before;
            if fired {
                out.probes.hit("save_error_swallowed_call_returned_ok");
            }
            // ack => durable: the stored file must load back equal (read side fault-free here)
            match guard(|| if via_trait { <T as layout21utils::SerdeFile>::open(fs.sp(L_MK), fmt) } else { fmt.open::<T>(fs.sp(L_MK)) }) {
                Err(p) => out.violation = Some(panic_violation("SerializationFormat::open", &p, art(Value::Null))),
                Ok(Err(e)) => out.violation = Some(v(if fired { "ack-not-durable" } else { "load-error" }, format!("{}:save-open/{}", fk, if fired { wlabel } else { "open" }), format!("save returned Ok but the stored file does not load (disk reported an error: {}): {}", fired, truncate(&e.to_string(), 300)), json!({"stored_len": fs.get(L_MK).map(|b| b.len()), "text_len": text.len()}))),
                Ok(Ok(l2)) => {
                    if let Some(d) = eq(lib, &l2) {
                        out.violation = Some(v(if fired { "ack-not-durable" } else { "mismatch" }, format!("{}:file:{}", fk, d), format!("save->open changes the library at {}", d), Value::Null));
                    }
                }
            }
            // read side under the configuration's schedule
            if out.violation.is_none() && cfg != Cfg::FaultFree {
                fs.plan(L_MK, FilePlan { read: rpol.clone(), ..Default::default() });
                let before = io.borrow().errors_returned.len();
                match guard(|| fmt.open::<T>(fs.sp(L_MK))) {
                    Err(p) => out.violation = Some(panic_violation("SerializationFormat::open(scheduled)", &p, art(Value::Null))),
                    Ok(Err(e)) => {
                        let fired = io.borrow().errors_returned.len() > before;
                        if cfg == Cfg::Terminal && fired {
                            out.probes.hit("open_terminal_err_reported");
                        } else {
                            out.violation = Some(v("not-transparent", format!("{}:open/{}/result", fk, cfg.name()), format!("open fails under schedule {:?}: {}", rpol, truncate(&e.to_string(), 300)), Value::Null));
                        }
                    }
                    Ok(Ok(l2)) => {
                        if let Some(d) = eq(lib, &l2) {
                            out.violation = Some(v("wrong-data", format!("{}:open/{}:{}", fk, cfg.name(), d), format!("open under schedule {:?} returns a different library at {}", rpol, d), Value::Null));
                        }
                    }
                }
            }
        }
    (out, extra)
}
