//! C05 — LEF write-then-read returns the library that was written.
//! Reader-image libraries (real reader applied to G-lef text) -> real writer -> SimFs -> real reader.

use super::gdscommon::first_diff;
use super::iocfg::*;
use crate::engine::*;
use crate::gen_lef::*;
use crate::rng::fnv64;
use crate::simio::*;
use lef21::{LefError, LefLibrary};
use serde_json::{json, Value};

pub struct C05;
pub const SRC: &str = "/sim/source.lef";
pub const OUT: &str = "/sim/out.lef";
pub const TMP: &str = "/sim/tostring.lef";
pub const RIN: &str = "/sim/read-error.lef";

/// Signature of a LEF error: variant, parse-error type and context stack (from the Debug form)
pub fn lef_err_sig(e: &LefError) -> String {
    let d = format!("{:?}", e);
    let grab = |key: &str, close: char| -> String {
        d.find(key).map(|i| d[i + key.len()..].chars().take_while(|c| *c != close).collect::<String>()).unwrap_or_default()
    };
    match e {
        LefError::Lex { .. } => "Lex".into(),
        LefError::Parse { .. } => sanitize(&format!("Parse:{}:[{}]:tok={}", grab("tp: ", ','), grab("ctx: [", ']'), truncate(&grab("token: \"", '"'), 12))),
        LefError::Boxed(b) => sanitize(&format!("Boxed:{}", truncate(&b.to_string(), 40))),
        LefError::Str(s) => sanitize(&format!("Str:{}", truncate(s, 40))),
    }
}
pub fn describe_lef(l: &LefLibrary) -> String {
    let pins: usize = l.macros.iter().map(|m| m.pins.len()).sum();
    let ports: usize = l.macros.iter().flat_map(|m| m.pins.iter()).map(|p| p.ports.len()).sum();
    let geoms: usize = l.macros.iter().flat_map(|m| m.pins.iter()).flat_map(|p| p.ports.iter()).flat_map(|p| p.layers.iter()).map(|g| g.geometries.len() + g.vias.len()).sum();
    format!(
        "v={:?} macros={} pins={} ports={} geoms={} obs={} sites={} vias={} propdefs={} ext={} units={} hdr={}{}{}{}{}{}{}{} dens={} cls={}",
        l.version.map(|v| v.to_string()),
        l.macros.len(),
        pins,
        ports,
        geoms,
        l.macros.iter().map(|m| m.obs.len()).sum::<usize>(),
        l.sites.len(),
        l.vias.len(),
        l.property_definitions.len(),
        l.extensions.len(),
        l.units.is_some(),
        l.names_case_sensitive.is_some() as u8,
        l.no_wire_extension_at_pin.is_some() as u8,
        l.bus_bit_chars.is_some() as u8,
        l.divider_char.is_some() as u8,
        l.manufacturing_grid.is_some() as u8,
        l.use_min_spacing.is_some() as u8,
        l.clearance_measure.is_some() as u8,
        l.fixed_mask as u8,
        l.macros.iter().filter(|m| m.density.is_some()).count(),
        l.macros.iter().filter(|m| m.class.is_some()).count(),
    )
}
/// Which constructs a reader-image library contains (reach probes)
pub fn lef_features(l: &LefLibrary) -> Vec<&'static str> {
    use lef21::*;
    let mut f: Vec<&'static str> = Vec::new();
    let mut add = |c: bool, n: &'static str| {
        if c && !f.contains(&n) {
            f.push(n);
        }
    };
    add(l.version.is_some(), "VERSION");
    add(l.names_case_sensitive.is_some(), "NAMESCASESENSITIVE");
    add(l.no_wire_extension_at_pin.is_some(), "NOWIREEXTENSIONATPIN");
    add(l.bus_bit_chars.is_some(), "BUSBITCHARS");
    add(l.divider_char.is_some(), "DIVIDERCHAR");
    add(l.units.is_some(), "UNITS");
    add(l.manufacturing_grid.is_some(), "MANUFACTURINGGRID");
    add(l.use_min_spacing.is_some(), "USEMINSPACING");
    add(l.clearance_measure.is_some(), "CLEARANCEMEASURE");
    add(l.fixed_mask, "FIXEDMASK(library)");
    add(!l.property_definitions.is_empty(), "PROPERTYDEFINITIONS");
    add(!l.extensions.is_empty(), "BEGINEXT");
    add(!l.sites.is_empty(), "SITE");
    add(l.sites.iter().any(|s| s.symmetry.is_some()), "SITE.SYMMETRY");
    for v in &l.vias {
        match &v.data {
            LefViaDefData::Fixed(d) => {
                add(true, "VIA(fixed)");
                add(d.resistance_ohms.is_some(), "VIA.RESISTANCE");
                add(d.layers.iter().any(|g| g.shapes.iter().any(|s| matches!(s, LefViaShape::Polygon(..)))), "VIA.POLYGON");
                add(d.layers.iter().any(|g| g.shapes.iter().any(|s| matches!(s, LefViaShape::Rect(Some(_), ..) | LefViaShape::Polygon(Some(_), ..)))), "VIA.MASK");
            }
            LefViaDefData::Generated(d) => {
                add(true, "VIA(generated)");
                add(d.rowcol.is_some(), "VIA.ROWCOL");
                add(d.origin.is_some(), "VIA.ORIGIN");
                add(d.offset.is_some(), "VIA.OFFSET");
            }
        }
        add(v.default, "VIA.DEFAULT");
    }
    for m in &l.macros {
        add(true, "MACRO");
        match &m.class {
            Some(LefMacroClass::Cover { .. }) => add(true, "CLASS COVER"),
            Some(LefMacroClass::Ring) => add(true, "CLASS RING"),
            Some(LefMacroClass::Block { .. }) => add(true, "CLASS BLOCK"),
            Some(LefMacroClass::Pad { .. }) => add(true, "CLASS PAD"),
            Some(LefMacroClass::Core { .. }) => add(true, "CLASS CORE"),
            Some(LefMacroClass::EndCap { .. }) => add(true, "CLASS ENDCAP"),
            None => {}
        }
        add(m.foreign.is_some(), "FOREIGN");
        add(m.foreign.as_ref().map(|f| f.orient.is_some()).unwrap_or(false), "FOREIGN.orient");
        add(m.origin.is_some(), "ORIGIN");
        add(m.size.is_some(), "SIZE");
        add(m.symmetry.is_some(), "SYMMETRY");
        add(m.site.is_some(), "MACRO.SITE");
        add(m.source.is_some(), "SOURCE");
        add(m.eeq.is_some(), "EEQ");
        add(m.fixed_mask, "FIXEDMASK(macro)");
        add(m.density.is_some(), "DENSITY");
        add(!m.obs.is_empty(), "OBS");
        for p in &m.pins {
            add(true, "PIN");
            add(p.direction.is_some(), "PIN.DIRECTION");
            add(matches!(p.direction, Some(LefPinDirection::Output { tristate: true })), "PIN.DIRECTION OUTPUT TRISTATE");
            add(p.use_.is_some(), "PIN.USE");
            add(p.shape.is_some(), "PIN.SHAPE");
            add(p.antenna_model.is_some(), "PIN.ANTENNAMODEL");
            add(!p.antenna_attrs.is_empty(), "PIN.ANTENNA*");
            add(p.antenna_attrs.iter().any(|a| a.layer.is_some()), "PIN.ANTENNA* LAYER");
            add(p.taper_rule.is_some(), "PIN.TAPERRULE");
            add(p.must_join.is_some(), "PIN.MUSTJOIN");
            add(p.supply_sensitivity.is_some(), "PIN.SUPPLYSENSITIVITY");
            add(p.ground_sensitivity.is_some(), "PIN.GROUNDSENSITIVITY");
            add(p.net_expr.is_some(), "PIN.NETEXPR");
            for port in &p.ports {
                add(true, "PORT");
                add(port.class.is_some(), "PORT.CLASS");
                for g in &port.layers {
                    add(true, "LAYER geometries");
                    add(g.except_pg_net.is_some(), "LAYER.EXCEPTPGNET");
                    add(matches!(g.spacing, Some(LefLayerSpacing::Spacing(_))), "LAYER.SPACING");
                    add(matches!(g.spacing, Some(LefLayerSpacing::DesignRuleWidth(_))), "LAYER.DESIGNRULEWIDTH");
                    add(g.width.is_some(), "LAYER.WIDTH");
                    add(!g.vias.is_empty(), "geometry VIA");
                    for ge in &g.geometries {
                        let (sh, it) = match ge {
                            LefGeometry::Shape(s) => (s, false),
                            LefGeometry::Iterate { shape, .. } => (shape, true),
                        };
                        add(it, "ITERATE");
                        match sh {
                            LefShape::Rect(m, ..) => {
                                add(true, "RECT");
                                add(m.is_some(), "MASK");
                            }
                            LefShape::Polygon(m, ..) => {
                                add(true, "POLYGON");
                                add(m.is_some(), "MASK");
                            }
                            LefShape::Path(m, ..) => {
                                add(true, "PATH");
                                add(m.is_some(), "MASK");
                            }
                        }
                    }
                }
            }
        }
    }
    f
}
pub fn lef_artefact(l: &LefLibrary) -> Value {
    match serde_json::to_string(l) {
        Ok(s) if s.len() <= 20_000 => serde_json::from_str(&s).unwrap_or(Value::Null),
        Ok(s) => Value::String(truncate(&s, 4000)),
        Err(e) => Value::String(format!("unserialisable: {}", e)),
    }
}

impl Check for C05 {
    fn id(&self) -> &'static str {
        "C05"
    }
    fn level(&self) -> &'static str {
        "exploration"
    }
    fn runs(&self, tier: Tier) -> u64 {
        match tier {
            Tier::Quick => 60_000,
            Tier::Thorough => 40_000_000,
        }
    }
    fn rule(&self) -> String {
        "G-lef renders LEF text from the LEF syntax (versions 5.3-5.8 or none, with/without END LIBRARY; header statements, UNITS, PROPERTYDEFINITIONS, BEGINEXT, SITE, fixed and generated VIA, MACRO with CLASS/FIXEDMASK/FOREIGN(+orient)/ORIGIN/SOURCE(<=5.4)/EEQ/SIZE/SYMMETRY/SITE/PROPERTY/DENSITY/OBS, PIN with every attribute, PORT with CLASS, layer geometries with EXCEPTPGNET/SPACING/DESIGNRULEWIDTH/WIDTH/MASK/ITERATE/VIA; statement-order, whitespace, comment, keyword-case and decimal-spelling variation); the real reader parses it and the value it returns, L, is the input (texts the reader rejects are counted and skipped). Then real to_string and save (SimFs) and real open: fault-free, benign (short/EINTR/chunk), terminal (EIO/ENOSPC/flush/create). Non-trivial = L has >=1 macro, site or via and (fault-free or >=1 fault fired); distinct = distinct (library structure digest, schedule digest).".into()
    }
    fn assumptions(&self) -> Vec<String> {
        vec!["G-lef never repeats a once-only statement and uses ASCII only here (non-ASCII belongs to C11)".into(), "success of the writer is required only for libraries the reader itself produced".into()]
    }
    fn real_vs_stub(&self) -> Value {
        json!({"real": ["lef21 writer (LefWriter)", "lef21 lexer/parser", "std write_all/read_to_string"], "stub": ["file system (SimFs)"], "generator": ["G-lef grammar-driven text renderer"]})
    }
    fn run(&self, inp: RunIn) -> RunOut {
        let mut wt = inp.wtape;
        let mut ft = inp.ftape;
        let cfg = Cfg::draw(&mut ft);
        let (text, _sw) = gen_lef_text(&mut wt, false);
        let io = new_io(ft, inp.want_sample);
        let mut out = RunOut::new();
        out.probes.hit(&format!("cfg_{}", cfg.name()));
        let fs = SimFs::new(&io);
        let _g = fs.install();
        fs.put(SRC, text.clone().into_bytes());
        let lib = match guard(|| LefLibrary::open(fs.sp(SRC))) {
            Err(_) => {
                out.probes.hit("reader_panicked_on_generated_text(C11)");
                return super::finish(out, &io, &wt, 0, cfg, 0, false);
            }
            Ok(Err(e)) => {
                out.probes.hit("generated_text_rejected_by_reader");
                out.probes.hit(&format!("rejected:{}", truncate(&lef_err_sig(&e), 60)));
                return super::finish(out, &io, &wt, 1, cfg, 0, false);
            }
            Ok(Ok(l)) => l,
        };
        out.probes.hit("reader_image_libraries");
        for f in lef_features(&lib) {
            out.probes.hit(&format!("has:{}", f));
        }
        let sd = fnv64(describe_lef(&lib).as_bytes());
        let nonempty = !lib.macros.is_empty() || !lib.sites.is_empty() || !lib.vias.is_empty();
        let art = |more: Value| json!({"source_text": truncate(&text, 6000), "library": lef_artefact(&lib), "more": more});
        let v = |class: &str, sig: String, detail: String, more: Value| Violation { class: class.into(), sig, detail, artefact: art(more) };
        // ---- history step (1 run in 4): an earlier call on this thread that the writer refuses part-way.
        // The refused value is NOT in the property's input space (it is `lib` with a VERSION the reader would
        // not have accepted for one of its statements), and its outcome is not judged; what is judged is that
        // the call that follows, on the reader-produced `lib`, behaves as if nothing had happened before.
        if wt.draw(4) == 0 {
            let mut decoy = lib.clone();
            decoy.version = Some(lef21::LefDecimal::new(58, 1));
            match decoy.macros.first_mut() {
                Some(m) if wt.draw(2) == 0 => m.source = Some(lef21::LefDefSource::User),
                _ => decoy.names_case_sensitive = Some(lef21::LefOnOff::On),
            }
            match guard(|| decoy.to_string()) {
                Ok(Err(_)) => out.probes.hit("history:refused_write_before_the_judged_write"),
                Ok(Ok(_)) => out.probes.hit("history:decoy_write_accepted"),
                Err(_) => out.probes.hit("history:decoy_write_panicked"),
            }
        }
        // ---- history step (1 run in 6): a different, small library went through to_string, save and open at the same
        // paths earlier on this thread (outcome not judged)
        if wt.draw(6) == 0 {
            fs.put(TMP, b"VERSION 5.8 ;\nMACRO an_earlier_macro\n  SIZE 2 BY 3 ;\nEND an_earlier_macro\nEND LIBRARY\n".to_vec());
            if let Ok(Ok(other)) = guard(|| LefLibrary::open(fs.sp(TMP))) {
                let _ = guard(|| other.to_string());
                let _ = guard(|| other.save(fs.sp(OUT)));
                let _ = guard(|| LefLibrary::open(fs.sp(OUT)));
                out.probes.hit("history:another_library_written_and_read_at_the_same_paths_first");
            }
        }
        // ---- fault-free: to_string and save must succeed and read back equal
        let s0 = match guard(|| lib.to_string()) {
            Err(p) => {
                out.violation = Some(panic_violation("LefLibrary::to_string", &p, art(Value::Null)));
                return super::finish(out, &io, &wt, sd, cfg, 2, nonempty);
            }
            Ok(Err(e)) => {
                out.violation = Some(v("write-failed", format!("to_string:{}", lef_err_sig(&e)), format!("writing a library the reader produced fails: {}", truncate(&format!("{:?}", e), 300)), Value::Null));
                return super::finish(out, &io, &wt, sd, cfg, 3, nonempty);
            }
            Ok(Ok(s)) => s,
        };
        let reread = |path: &str, what: &str, out: &mut RunOut| match guard(|| LefLibrary::open(fs.sp(path))) {
            Err(p) => out.violation = Some(panic_violation(&format!("LefLibrary::open({})", what), &p, art(json!({"written_text": truncate(&s0, 6000)})))),
            Ok(Err(e)) => out.violation = Some(v("reread-error", format!("{}:{}", what, lef_err_sig(&e)), format!("the written text is rejected by the reader: {}", truncate(&format!("{:?}", e), 400)), json!({"written_text": truncate(&s0, 6000)}))),
            Ok(Ok(l2)) => {
                if l2 != lib {
                    let d = first_diff(&lib, &l2);
                    out.violation = Some(v("mismatch", format!("{}:{}", what, d), format!("the library read back differs at {}", d), json!({"written_text": truncate(&s0, 6000)})));
                }
            }
        };
        fs.put(TMP, s0.clone().into_bytes());
        reread(TMP, "to_string", &mut out);
        if out.violation.is_some() {
            return super::finish(out, &io, &wt, sd, cfg, 4, nonempty);
        }
        if inp.want_sample {
            out.sample = Some(json!({"configuration": cfg.name(), "source_text": truncate(&text, 1500), "library": describe_lef(&lib), "written_len": s0.len()}));
        }
        let mut extra = 0u64;
        let (wpol, rpol) = match cfg {
            Cfg::FaultFree => (Policy::plain(), Policy::plain()),
            Cfg::Benign => {
                let w = benign(&mut io.borrow_mut().ftape);
                let r = benign(&mut io.borrow_mut().ftape);
                (w, r)
            }
            Cfg::Terminal => {
                let w = terminal_write(&mut io.borrow_mut().ftape, s0.len() as u64).0;
                (w, Policy::plain())
            }
        };
        extra ^= policy_digest(&wpol) ^ policy_digest(&rpol).rotate_left(9);
        let create_err = cfg == Cfg::Terminal && io.borrow_mut().ftape.chance(1, 12);
        fs.plan(OUT, FilePlan { write: wpol.clone(), read: rpol.clone(), create_err: if create_err { Some(std::io::ErrorKind::PermissionDenied) } else { None }, ..Default::default() });
        let before = io.borrow().errors_returned.len();
        match guard(|| lib.save(fs.sp(OUT))) {
            Err(p) => out.violation = Some(panic_violation("LefLibrary::save", &p, art(Value::Null))),
            Ok(Err(e)) => {
                let fired = io.borrow().errors_returned.len() > before;
                if cfg == Cfg::Terminal && fired {
                    out.probes.hit("save_terminal_err_reported");
                    // history step: after the reported failure the same library is saved again, on the same thread, to a
                    // healthy file; that attempt must succeed and produce exactly the fault-free text
                    fs.plan(OUT, FilePlan::default());
                    match guard(|| lib.save(fs.sp(OUT))) {
                        Err(p) => out.violation = Some(panic_violation("LefLibrary::save(retry after a failed save)", &p, art(Value::Null))),
                        Ok(Err(e)) => out.violation = Some(v("write-failed", format!("save/after-failed-save:{}", lef_err_sig(&e)), format!("saving again after a failed save fails on a healthy file: {:?}", e), Value::Null)),
                        Ok(Ok(())) => {
                            out.probes.hit("history:save_again_after_failed_save");
                            if fs.get(OUT).unwrap_or_default() != s0.as_bytes() {
                                out.violation = Some(v("mismatch", "save/after-failed-save/bytes".into(), "saving again after a failed save writes a different text than the fault-free one".into(), Value::Null));
                            }
                        }
                    }
                } else {
                    out.violation = Some(v("write-failed", format!("save/{}:{}", cfg.name(), lef_err_sig(&e)), format!("save fails without a terminal fault: {:?}", e), Value::Null));
                }
            }
            Ok(Ok(())) => {
                let fired = io.borrow().errors_returned.len() > before;
                let file = fs.get(OUT).unwrap_or_default();
                if file != s0.as_bytes() {
                    let cls = if fired { "ack-not-durable" } else { "not-transparent" };
                    out.violation = Some(v(cls, format!("save/{}/bytes", cfg.name()), format!("save returned Ok but the file ({} bytes) differs from to_string ({} bytes); disk error fired: {}", file.len(), s0.len(), fired), Value::Null));
                } else {
                    if fired {
                        out.probes.hit("save_transient_error_recovered");
                    }
                    reread(OUT, "save-open", &mut out);
                }
            }
        }
        // read side of the terminal configuration: the written text is opened from a file whose read fails at a drawn
        // offset (EIO / EAGAIN / ETIMEDOUT, once or sticky). The disk said "error", so `open` must say Err — or, if it
        // retried and got everything, return the library; a library that differs from the written one means the error
        // was taken for the end of the file. (End-of-file itself is not injected: a prefix of a LEF text is a LEF text.)
        if cfg == Cfg::Terminal && out.violation.is_none() && !s0.is_empty() {
            let rp = terminal_read(&mut io.borrow_mut().ftape, s0.len() as u64, false);
            extra ^= policy_digest(&rp).rotate_left(27);
            fs.put(RIN, s0.clone().into_bytes());
            fs.plan(RIN, FilePlan { read: rp.clone(), ..Default::default() });
            let before = io.borrow().errors_returned.len();
            match guard(|| LefLibrary::open(fs.sp(RIN))) {
                Err(p) => out.violation = Some(panic_violation("LefLibrary::open(read error)", &p, art(json!({"written_text": truncate(&s0, 6000)})))),
                Ok(Err(_)) => out.probes.hit("open_read_error_reported"),
                Ok(Ok(l2)) => {
                    let fired = io.borrow().errors_returned.len() > before;
                    if l2 != lib && fired {
                        let d = first_diff(&lib, &l2);
                        out.violation = Some(v("read-error-swallowed", format!("open/read-error:{}", d), format!("open returned Ok although the disk reported {:?}, and the library differs from the stored one at {}", io.borrow().errors_returned[before..].iter().map(|e| e.2).collect::<Vec<_>>(), d), json!({"written_text": truncate(&s0, 6000), "read_policy": format!("{:?}", rp)})));
                    } else if l2 != lib {
                        let d = first_diff(&lib, &l2);
                        out.violation = Some(v("mismatch", format!("open/benign-before-fault:{}", d), format!("the library read back differs at {} (no read error fired)", d), json!({"written_text": truncate(&s0, 6000)})));
                    } else if fired {
                        out.probes.hit("open_read_error_recovered_value_complete");
                    }
                }
            }
        }
        if inp.want_sample {
            if let Some(s) = out.sample.as_mut() {
                s["event_log"] = json!(io.borrow().trace.clone().unwrap_or_default().into_iter().take(30).collect::<Vec<_>>());
            }
        }
        super::finish(out, &io, &wt, sd, cfg, extra, nonempty)
    }
}
