//! C01 — GDSII write-then-read returns the library that was written.
//! Real `GdsLibrary::{write, save, from_bytes, open}` over SimSink / SimSource / SimFs.

use super::gdscommon::*;
use super::iocfg::*;
use crate::engine::*;
use crate::gen_gds::*;
use crate::rng::{fnv64, Digest};
use crate::simio::*;
use gds21::*;
use serde_json::{json, Value};
use std::rc::Rc;

pub struct C01;

pub fn gds_err_sig(e: &GdsError) -> String {
    match e {
        GdsError::RecordDecode(rt, dt, _) => format!("RecordDecode:{:?}:{:?}", rt, dt),
        GdsError::RecordLen(_) => "RecordLen".into(),
        GdsError::InvalidDataType(_) => "InvalidDataType".into(),
        GdsError::InvalidRecordType(_) => "InvalidRecordType".into(),
        GdsError::Unsupported(_, _) => "Unsupported".into(),
        GdsError::Parse { msg, .. } => format!("Parse:{}", sanitize(msg)),
        GdsError::Boxed(e) => format!("Boxed:{}", sanitize(&truncate(&e.to_string(), 40))),
        GdsError::Str(s) => format!("Str:{}", sanitize(&truncate(s, 40))),
    }
}

pub const OUT: &str = "/sim/out.gds";
pub const INP: &str = "/sim/in.gds";

impl Check for C01 {
    fn id(&self) -> &'static str {
        "C01"
    }
    fn level(&self) -> &'static str {
        "exploration"
    }
    fn runs(&self, tier: Tier) -> u64 {
        match tier {
            Tier::Quick => 200_000,
            Tier::Thorough => 80_000_000,
        }
    }
    fn rule(&self) -> String {
        "G-gds tape-driven libraries (swarm: element-kind subset, optional-field rate, string profile incl. empty/odd/UTF-8/interior NUL/near-65531-byte strings, full-range i32 coordinates, oversize XY lists, arbitrary i16 dates, boundary-heavy in-range reals); each run executes the fault-free write->read first and then its configuration (fault-free | benign short/EINTR/chunk/BufWriter-capacity schedules | terminal EIO/ENOSPC/flush faults placed by byte offset) on SimSink, SimFs::save and SimSource/SimFs::open. Non-trivial = library has >=1 struct and, in fault configurations, >=1 fault fired; distinct = distinct (library structure digest, configuration+fired-fault digest).".into()
    }
    fn assumptions(&self) -> Vec<String> {
        vec![
            "strings never end in NUL (GDSII cannot distinguish it from padding)".into(),
            "reals are finite, zero or 16^-64 <= |x| < 16^63 (the range the statement names)".into(),
            "a failing write (Err) satisfies the statement; counted, not flagged".into(),
            "seek/stream_position on a regular file never fails".into(),
        ]
    }
    fn real_vs_stub(&self) -> Value {
        json!({"real": ["gds21 writer (GdsWriter, Encode)", "gds21 reader (GdsReader, GdsParser)", "std BufWriter / write_all / read_exact", "byteorder"], "stub": ["file system (SimFs via layout21utils::verif::Vfs)", "sink/source answers (SimSink/SimSource)"]})
    }
    fn run(&self, inp: RunIn) -> RunOut {
        let mut wt = inp.wtape;
        let mut ft = inp.ftape;
        let cfg = Cfg::draw(&mut ft);
        let (lib, _sw) = gen_lib(&mut wt, StrProfile::Gds);
        // scale runs: the first four run indices use a library of 4.5-9 MB (block sizes of megabytes inside a writer or
        // reader only matter there), fault-free; the name length shifts the alignment of everything that follows it
        let scale = inp.index < 4;
        let (lib, cfg) = if scale {
            let mut big = GdsLibrary::new(["lib", "ab", "x", "name5"][inp.index as usize]);
            big.units = gds21::GdsUnits::new(1e-3, 1e-9);
            for si in 0..(1 + inp.index % 2) {
                let mut st = gds21::GdsStruct::new(format!("big{}", si));
                for b in 0..70i32 {
                    st.elems.push(gds21::GdsElement::GdsBoundary(gds21::GdsBoundary { layer: (b % 7) as i16, datatype: 0, xy: (0..8000i32).map(|i| gds21::GdsPoint::new(i * 3 + b, b * 1000 - i)).collect(), ..Default::default() }));
                }
                big.structs.push(st);
            }
            (big, Cfg::FaultFree)
        } else {
            (lib, cfg)
        };
        let io = new_io(ft, inp.want_sample);
        let mut out = RunOut::new();
        out.probes.hit(&format!("cfg_{}", cfg.name()));
        if scale {
            out.probes.hit("scale_run_library_of_megabytes");
        }
        let fin = |mut out: RunOut, io: &Io, wt: &crate::rng::Tape, lib: &GdsLibrary, cfg: Cfg, extra: u64| -> RunOut {
            let r = io.borrow();
            out.digest = r.log.finish();
            out.stats = r.stats.clone();
            out.steps = r.steps;
            out.sim_ns = r.sim_ns;
            out.wtape = wt.used();
            out.ftape = r.ftape.used();
            let mut d = Digest::new();
            d.u64(fnv64(describe(lib).as_bytes()));
            let mut f = Digest::new();
            f.u64(cfg as u64);
            f.u64(extra);
            for c in r.stats.c.iter().skip(7) {
                f.u64(*c);
            }
            d.u64(f.finish());
            out.key = d.finish();
            out.nontrivial = !lib.structs.is_empty() && (cfg == Cfg::FaultFree || r.stats.faults_fired() > 0);
            out
        };
        let viol = |class: &str, sig: String, detail: String, lib: &GdsLibrary, more: Value| Violation { class: class.into(), sig, detail, artefact: json!({"library": lib_artefact(lib), "more": more}) };

        // history step (1 run in 8): an earlier write on this thread that the encoder refuses part-way (a boundary of
        // 10 000 points does not fit a record); its outcome is not judged, the writes below must be unaffected
        if io.borrow_mut().ftape.chance(1, 8) {
            let mut refused = gds21::GdsLibrary::new("refused_earlier");
            let mut st = gds21::GdsStruct::new("too_big");
            st.elems.push(gds21::GdsElement::GdsBoundary(gds21::GdsBoundary { layer: 1, datatype: 0, xy: (0..10_000).map(|i| gds21::GdsPoint::new(i, -i)).collect(), ..Default::default() }));
            refused.structs.push(st);
            let mut junk: Vec<u8> = Vec::new();
            match guard(|| refused.write(&mut junk)) {
                Ok(Err(_)) => out.probes.hit("history:refused_write_before_the_judged_writes"),
                _ => out.probes.hit("history:decoy_write_not_refused"),
            }
        }
        // ---- A: fault-free, in memory
        let sink = SimSink::new(&io, Policy::plain());
        let store = sink.store.clone();
        let res = guard(|| lib.write(sink));
        let bytes0: Vec<u8> = match res {
            Err(p) => {
                out.violation = Some(panic_violation("GdsLibrary::write", &p, json!({"library": lib_artefact(&lib)})));
                return fin(out, &io, &wt, &lib, cfg, 0);
            }
            Ok(Err(e)) => {
                out.probes.hit("write_returned_err");
                if !has_oversize(&lib) {
                    out.probes.hit("write_err_without_oversize_record");
                }
                out.probes.hit(&format!("write_err_{}", gds_err_sig(&e)));
                return fin(out, &io, &wt, &lib, cfg, 1);
            }
            Ok(Ok(())) => store.borrow().clone(),
        };
        out.probes.add("bytes_written_fault_free", bytes0.len() as u64);
        match guard(|| GdsLibrary::from_bytes(&bytes0)) {
            Err(p) => {
                out.violation = Some(panic_violation("GdsLibrary::from_bytes(written bytes)", &p, json!({"library": lib_artefact(&lib), "bytes": hex(&bytes0)})));
                return fin(out, &io, &wt, &lib, cfg, 2);
            }
            Ok(Err(e)) => {
                out.violation = Some(viol("readback-error", format!("from_bytes:{}", gds_err_sig(&e)), format!("written bytes do not read back: {}", truncate(&e.to_string(), 300)), &lib, json!({"bytes": hex(&bytes0)})));
                return fin(out, &io, &wt, &lib, cfg, 3);
            }
            Ok(Ok(l2)) => {
                if l2 != lib {
                    let d = first_diff(&lib, &l2);
                    out.violation = Some(viol("mismatch", format!("roundtrip:{}", d), format!("library read back differs at {}", d), &lib, json!({"read_back": lib_artefact(&l2)})));
                    return fin(out, &io, &wt, &lib, cfg, 4);
                }
            }
        }
        if inp.want_sample {
            out.sample = Some(json!({"configuration": cfg.name(), "library": lib_artefact(&lib), "bytes": bytes0.len()}));
        }
        let len0 = bytes0.len() as u64;
        let mut extra = 0u64;
        match cfg {
            Cfg::FaultFree => {
                // the file-system path, fault-free
                let fs = SimFs::new(&io);
                let _g = fs.install();
                // history step (1 run in 6): a different, small library was saved to the same destination and opened
                // from it earlier on this thread; the judged calls below must be unaffected (outcome not judged)
                if io.borrow_mut().ftape.chance(1, 6) {
                    let mut other = GdsLibrary::new("an_earlier_library");
                    other.structs.push(gds21::GdsStruct::new("earlier_cell"));
                    let _ = guard(|| other.save(fs.sp(OUT)));
                    let _ = guard(|| GdsLibrary::open(fs.sp(OUT)));
                    out.probes.hit("history:another_library_saved_and_opened_at_the_same_path_first");
                }
                match guard(|| lib.save(fs.sp(OUT))) {
                    Err(p) => out.violation = Some(panic_violation("GdsLibrary::save", &p, json!({"library": lib_artefact(&lib)}))),
                    Ok(Err(e)) => out.violation = Some(viol("not-transparent", "save/fault-free/result".into(), format!("save failed without any fault although write succeeded: {}", e), &lib, Value::Null)),
                    Ok(Ok(())) => {
                        if fs.get(OUT).as_deref() != Some(&bytes0[..]) {
                            out.violation = Some(viol("ack-not-durable", "save/fault-free/bytes".into(), "save returned Ok but the file differs from the bytes write() produces".into(), &lib, json!({"file_len": fs.get(OUT).map(|b| b.len())})));
                        }
                    }
                }
                if out.violation.is_none() {
                    match guard(|| GdsLibrary::open(fs.sp(OUT))) {
                        Err(p) => out.violation = Some(panic_violation("GdsLibrary::open", &p, json!({"library": lib_artefact(&lib)}))),
                        Ok(Err(e)) => out.violation = Some(viol("readback-error", format!("open:{}", gds_err_sig(&e)), format!("saved file does not open: {}", truncate(&e.to_string(), 300)), &lib, Value::Null)),
                        Ok(Ok(l3)) => {
                            if l3 != lib {
                                let d = first_diff(&lib, &l3);
                                out.violation = Some(viol("mismatch", format!("roundtrip-file:{}", d), format!("library re-opened from file differs at {}", d), &lib, Value::Null));
                            }
                        }
                    }
                }
            }
            Cfg::Benign => {
                // (1) sink under a benign schedule: identical bytes, same result
                let pol = benign(&mut io.borrow_mut().ftape);
                extra ^= policy_digest(&pol);
                let sink = SimSink::new(&io, pol.clone());
                let st = sink.store.clone();
                match guard(|| lib.write(sink)) {
                    Err(p) => out.violation = Some(panic_violation("GdsLibrary::write(benign)", &p, json!({"library": lib_artefact(&lib)}))),
                    Ok(Err(e)) => out.violation = Some(viol("not-transparent", "write/benign/result".into(), format!("write fails under a benign schedule {:?}: {}", pol, e), &lib, Value::Null)),
                    Ok(Ok(())) => {
                        if *st.borrow() != bytes0 {
                            let at = st.borrow().iter().zip(bytes0.iter()).position(|(a, b)| a != b).unwrap_or(st.borrow().len().min(bytes0.len()));
                            out.violation = Some(viol("not-transparent", "write/benign/bytes".into(), format!("bytes accepted under benign schedule {:?} differ from the fault-free stream at offset {} (lens {} vs {})", pol, at, st.borrow().len(), bytes0.len()), &lib, Value::Null));
                        }
                    }
                }
                // (2) save through SimFs with BufWriter capacity knob
                if out.violation.is_none() {
                    let fs = SimFs::new(&io);
                    let _g = fs.install();
                    let cap = bufcap(&mut io.borrow_mut().ftape);
                    layout21utils::verif::set_bufwriter_capacity(cap);
                    let wpol = benign(&mut io.borrow_mut().ftape);
                    let rpol = benign(&mut io.borrow_mut().ftape);
                    extra ^= policy_digest(&wpol).rotate_left(7) ^ policy_digest(&rpol).rotate_left(13) ^ cap.unwrap_or(0) as u64;
                    fs.plan(OUT, FilePlan { write: wpol.clone(), read: rpol.clone(), ..Default::default() });
                    match guard(|| lib.save(fs.sp(OUT))) {
                        Err(p) => out.violation = Some(panic_violation("GdsLibrary::save(benign)", &p, json!({"library": lib_artefact(&lib)}))),
                        Ok(Err(e)) => out.violation = Some(viol("not-transparent", "save/benign/result".into(), format!("save fails under benign schedule {:?} cap {:?}: {}", wpol, cap, e), &lib, Value::Null)),
                        Ok(Ok(())) => {
                            if fs.get(OUT).as_deref() != Some(&bytes0[..]) {
                                out.violation = Some(viol("not-transparent", "save/benign/bytes".into(), format!("file written under benign schedule {:?} cap {:?} differs from the fault-free stream (len {:?} vs {})", wpol, cap, fs.get(OUT).map(|b| b.len()), bytes0.len()), &lib, Value::Null));
                            }
                        }
                    }
                    // (3) open through a benign source
                    if out.violation.is_none() {
                        match guard(|| GdsLibrary::open(fs.sp(OUT))) {
                            Err(p) => out.violation = Some(panic_violation("GdsLibrary::open(benign)", &p, json!({"library": lib_artefact(&lib)}))),
                            Ok(Err(e)) => out.violation = Some(viol("not-transparent", format!("open/benign/result:{}", gds_err_sig(&e)), format!("open fails under benign read schedule {:?}: {}", rpol, truncate(&e.to_string(), 300)), &lib, Value::Null)),
                            Ok(Ok(l3)) => {
                                if l3 != lib {
                                    let d = first_diff(&lib, &l3);
                                    out.violation = Some(viol("not-transparent", format!("open/benign/value:{}", d), format!("library read under benign schedule {:?} differs at {}", rpol, d), &lib, Value::Null));
                                }
                            }
                        }
                    }
                }
            }
            Cfg::Terminal => {
                // (1) sink with terminal faults: ack => durable
                let (pol, label) = terminal_write(&mut io.borrow_mut().ftape, len0);
                extra ^= policy_digest(&pol);
                let sink = SimSink::new(&io, pol.clone());
                let st = sink.store.clone();
                let before = io.borrow().errors_returned.len();
                match guard(|| lib.write(sink)) {
                    Err(p) => out.violation = Some(panic_violation("GdsLibrary::write(terminal)", &p, json!({"library": lib_artefact(&lib)}))),
                    Ok(Err(_)) => {
                        out.probes.hit("write_terminal_err_reported");
                        // history: after a failed write, the next write on this thread must produce the same stream as ever
                        let sink = SimSink::new(&io, Policy::plain());
                        let st2 = sink.store.clone();
                        match guard(|| lib.write(sink)) {
                            Ok(Ok(())) if *st2.borrow() == bytes0 => out.probes.hit("retry_after_failed_write_identical"),
                            Ok(Ok(())) => out.violation = Some(viol("not-transparent", "write/retry-after-failure/bytes".into(), format!("a write that follows a failed write ({}) on the same thread produces a different stream ({} vs {} bytes)", label, st2.borrow().len(), bytes0.len()), &lib, Value::Null)),
                            Ok(Err(e)) => out.violation = Some(viol("not-transparent", "write/retry-after-failure/result".into(), format!("a fault-free write fails after an earlier failed write: {}", e), &lib, Value::Null)),
                            Err(p) => out.violation = Some(panic_violation("GdsLibrary::write(retry)", &p, json!({"library": lib_artefact(&lib)}))),
                        }
                    }
                    Ok(Ok(())) => {
                        let fired = io.borrow().errors_returned.len() > before;
                        if fired {
                            out.probes.hit("write_error_swallowed_call_returned_ok");
                        }
                        // write() takes a caller-owned sink and documents no flush: only the bytes matter
                        if *st.borrow() != bytes0 && fired {
                            out.violation = Some(viol("ack-not-durable", format!("write/{}", label), format!("write returned Ok although the sink reported {} and holds {} of {} bytes", label, st.borrow().len(), bytes0.len()), &lib, Value::Null));
                        }
                    }
                }
                // (1b) a consumed sink with a write-back cache (bytes are durable only once a flush succeeded) whose
                // flush is interrupted: write() owns the sink, so Ok must mean everything was flushed
                if out.violation.is_none() {
                    let pol = writeback_sink(&mut io.borrow_mut().ftape);
                    extra ^= policy_digest(&pol).rotate_left(3);
                    let sink = SimSink::new(&io, pol.clone());
                    let st = sink.store.clone();
                    match guard(|| lib.write(sink)) {
                        Err(p) => out.violation = Some(panic_violation("GdsLibrary::write(writeback)", &p, json!({"library": lib_artefact(&lib)}))),
                        Ok(Err(_)) => out.probes.hit("write_flush_interrupted_err_reported"),
                        Ok(Ok(())) => {
                            if *st.borrow() != bytes0 {
                                out.violation = Some(viol("ack-not-durable", format!("write/writeback/flush-eintr={}", pol.flush_eintr), format!("write returned Ok but only {} of {} bytes were made durable by a successful flush ({} interrupted flush calls)", st.borrow().len(), bytes0.len(), pol.flush_eintr), &lib, Value::Null));
                            } else {
                                out.probes.hit("write_writeback_durable");
                            }
                        }
                    }
                }
                // (2) save with terminal faults on the file
                if out.violation.is_none() {
                    let fs = SimFs::new(&io);
                    let _g = fs.install();
                    let cap = bufcap(&mut io.borrow_mut().ftape);
                    layout21utils::verif::set_bufwriter_capacity(cap);
                    let (wpol, wlabel) = terminal_write(&mut io.borrow_mut().ftape, len0);
                    let create_err = io.borrow_mut().ftape.chance(1, 12);
                    extra ^= policy_digest(&wpol).rotate_left(9) ^ cap.unwrap_or(0) as u64 ^ create_err as u64;
                    fs.plan(OUT, FilePlan { write: wpol.clone(), create_err: if create_err { Some(std::io::ErrorKind::PermissionDenied) } else { None }, ..Default::default() });
                    let before = io.borrow().errors_returned.len();
                    match guard(|| lib.save(fs.sp(OUT))) {
                        Err(p) => out.violation = Some(panic_violation("GdsLibrary::save(terminal)", &p, json!({"library": lib_artefact(&lib)}))),
                        Ok(Err(_)) => out.probes.hit("save_terminal_err_reported"),
                        Ok(Ok(())) => {
                            let fired: Vec<String> = io.borrow().errors_returned[before..].iter().map(|e| e.2.to_string()).collect();
                            let file = fs.get(OUT);
                            let complete = file.as_deref() == Some(&bytes0[..]);
                            if !fired.is_empty() {
                                out.probes.hit("save_error_swallowed_call_returned_ok");
                            }
                            if !complete {
                                // acknowledged but not readable back
                                let lbl = fired.first().cloned().unwrap_or_else(|| wlabel.to_string());
                                out.violation = Some(viol(
                                    "ack-not-durable",
                                    format!("save/{}", lbl),
                                    format!("save returned Ok(()) but the disk reported {:?} and the file holds {:?} of {} bytes (BufWriter capacity {:?})", fired, file.map(|b| b.len()), bytes0.len(), cap),
                                    &lib,
                                    json!({"write_policy": format!("{:?}", wpol)}),
                                ));
                            } else if !fired.is_empty() {
                                out.probes.hit("save_transient_error_recovered_file_complete");
                            }
                        }
                    }
                }
                // (3) open with a read error inside the image
                if out.violation.is_none() {
                    let fs = SimFs::new(&io);
                    let _g = fs.install();
                    fs.put(INP, bytes0.clone());
                    let rpol = terminal_read(&mut io.borrow_mut().ftape, len0, true);
                    extra ^= policy_digest(&rpol).rotate_left(21);
                    fs.plan(INP, FilePlan { read: rpol.clone(), ..Default::default() });
                    let before = io.borrow().errors_returned.len();
                    match guard(|| GdsLibrary::open(fs.sp(INP))) {
                        Err(p) => out.violation = Some(panic_violation("GdsLibrary::open(terminal)", &p, json!({"library": lib_artefact(&lib)}))),
                        Ok(Err(_)) => out.probes.hit("open_terminal_err_reported"),
                        Ok(Ok(l3)) => {
                            let fired = io.borrow().errors_returned.len() > before;
                            if l3 != lib {
                                let d = first_diff(&lib, &l3);
                                out.violation = Some(viol("wrong-data-after-read-error", format!("open/EIO:{}", d), format!("open returned a different library after a read error (fired={}) at {}", fired, d), &lib, Value::Null));
                            } else if fired {
                                out.probes.hit("read_error_swallowed_value_right");
                            } else {
                                out.probes.hit("read_fault_not_reached");
                            }
                        }
                    }
                }
            }
        }
        if inp.want_sample {
            if let Some(s) = out.sample.as_mut() {
                s["event_log"] = json!(io.borrow().trace.clone().unwrap_or_default().into_iter().take(40).collect::<Vec<_>>());
                s["errors_returned_by_disk"] = json!(io.borrow().errors_returned.iter().map(|e| format!("obj{} call{} {}", e.0, e.1, e.2)).collect::<Vec<_>>());
            }
        }
        let _ = Rc::strong_count(&io);
        fin(out, &io, &wt, &lib, cfg, extra)
    }
}
