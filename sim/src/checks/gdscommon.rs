//! Helpers shared by the GDS checks: neutral model of a gds21 value, JSON diff paths.

use crate::gdsref::*;
use gds21::*;
use serde_json::Value;

fn dates12(d: &GdsDateTimes) -> [i16; 12] {
    [d.modified.year, d.modified.month, d.modified.day, d.modified.hour, d.modified.minute, d.modified.second, d.accessed.year, d.accessed.month, d.accessed.day, d.accessed.hour, d.accessed.minute, d.accessed.second]
}
fn nstrans(s: &Option<GdsStrans>) -> Option<NStrans> {
    s.as_ref().map(|s| NStrans {
        // STRANS flag bits per the specification: bit 0 (0x8000) reflection, bit 13 (0x0004) absolute magnification, bit 14 (0x0002) absolute angle
        flags: (if s.reflected { 0x8000 } else { 0 }) | (if s.abs_mag { 0x0004 } else { 0 }) | (if s.abs_angle { 0x0002 } else { 0 }),
        mag: s.mag.map(|x| x.to_bits()),
        angle: s.angle.map(|x| x.to_bits()),
    })
}
fn props(p: &[GdsProperty]) -> Vec<(i16, Vec<u8>)> {
    p.iter().map(|p| (p.attr, p.value.as_bytes().to_vec())).collect()
}
fn flat(p: &[GdsPoint]) -> Vec<i32> {
    p.iter().flat_map(|p| [p.x, p.y]).collect()
}
fn fl(e: &Option<GdsElemFlags>) -> Option<u16> {
    e.as_ref().map(|e| ((e.0 as u16) << 8) | e.1 as u16)
}

/// Neutral model of a gds21 library, derived field by field
pub fn model_of(lib: &GdsLibrary) -> NLib {
    let mut structs = Vec::new();
    for s in &lib.structs {
        let mut elems = Vec::new();
        for e in &s.elems {
            let n = match e {
                GdsElement::GdsBoundary(x) => {
                    let mut n = NElem::new(NKind::Boundary);
                    n.layer = Some(x.layer);
                    n.xtype = Some(x.datatype);
                    n.xy = flat(&x.xy);
                    n.elflags = fl(&x.elflags);
                    n.plex = x.plex.as_ref().map(|p| p.0);
                    n.props = props(&x.properties);
                    n
                }
                GdsElement::GdsPath(x) => {
                    let mut n = NElem::new(NKind::Path);
                    n.layer = Some(x.layer);
                    n.xtype = Some(x.datatype);
                    n.xy = flat(&x.xy);
                    n.width = x.width;
                    n.pathtype = x.path_type;
                    n.bgnextn = x.begin_extn;
                    n.endextn = x.end_extn;
                    n.elflags = fl(&x.elflags);
                    n.plex = x.plex.as_ref().map(|p| p.0);
                    n.props = props(&x.properties);
                    n
                }
                GdsElement::GdsStructRef(x) => {
                    let mut n = NElem::new(NKind::Sref);
                    n.sname = Some(x.name.as_bytes().to_vec());
                    n.xy = vec![x.xy.x, x.xy.y];
                    n.strans = nstrans(&x.strans);
                    n.elflags = fl(&x.elflags);
                    n.plex = x.plex.as_ref().map(|p| p.0);
                    n.props = props(&x.properties);
                    n
                }
                GdsElement::GdsArrayRef(x) => {
                    let mut n = NElem::new(NKind::Aref);
                    n.sname = Some(x.name.as_bytes().to_vec());
                    n.xy = flat(&x.xy);
                    n.colrow = Some((x.cols, x.rows));
                    n.strans = nstrans(&x.strans);
                    n.elflags = fl(&x.elflags);
                    n.plex = x.plex.as_ref().map(|p| p.0);
                    n.props = props(&x.properties);
                    n
                }
                GdsElement::GdsTextElem(x) => {
                    let mut n = NElem::new(NKind::Text);
                    n.string = Some(x.string.as_bytes().to_vec());
                    n.layer = Some(x.layer);
                    n.xtype = Some(x.texttype);
                    n.xy = vec![x.xy.x, x.xy.y];
                    n.presentation = x.presentation.as_ref().map(|p| ((p.0 as u16) << 8) | p.1 as u16);
                    n.pathtype = x.path_type;
                    n.width = x.width;
                    n.strans = nstrans(&x.strans);
                    n.elflags = fl(&x.elflags);
                    n.plex = x.plex.as_ref().map(|p| p.0);
                    n.props = props(&x.properties);
                    n
                }
                GdsElement::GdsNode(x) => {
                    let mut n = NElem::new(NKind::Node);
                    n.layer = Some(x.layer);
                    n.xtype = Some(x.nodetype);
                    n.xy = flat(&x.xy);
                    n.elflags = fl(&x.elflags);
                    n.plex = x.plex.as_ref().map(|p| p.0);
                    n.props = props(&x.properties);
                    n
                }
                GdsElement::GdsBox(x) => {
                    let mut n = NElem::new(NKind::Box);
                    n.layer = Some(x.layer);
                    n.xtype = Some(x.boxtype);
                    n.xy = flat(&x.xy);
                    n.elflags = fl(&x.elflags);
                    n.plex = x.plex.as_ref().map(|p| p.0);
                    n.props = props(&x.properties);
                    n
                }
            };
            elems.push(n);
        }
        structs.push(NStruct { dates: dates12(&s.dates), name: s.name.as_bytes().to_vec(), elems });
    }
    NLib { version: lib.version, dates: dates12(&lib.dates), name: lib.name.as_bytes().to_vec(), units: (lib.units.0.to_bits(), lib.units.1.to_bits()), structs, extras: vec![] }
}

/// First differing path of two JSON values, with array indices erased
pub fn json_diff(a: &Value, b: &Value, path: &mut String) -> Option<String> {
    match (a, b) {
        (Value::Object(x), Value::Object(y)) => {
            for (k, v) in x {
                match y.get(k) {
                    None => return Some(format!("{}.{}(missing)", path, k)),
                    Some(w) => {
                        let l = path.len();
                        path.push('.');
                        path.push_str(k);
                        if let Some(d) = json_diff(v, w, path) {
                            return Some(d);
                        }
                        path.truncate(l);
                    }
                }
            }
            for k in y.keys() {
                if !x.contains_key(k) {
                    return Some(format!("{}.{}(extra)", path, k));
                }
            }
            None
        }
        (Value::Array(x), Value::Array(y)) => {
            if x.len() != y.len() {
                return Some(format!("{}[].len", path));
            }
            let l = path.len();
            path.push_str("[]");
            for (v, w) in x.iter().zip(y.iter()) {
                if let Some(d) = json_diff(v, w, path) {
                    return Some(d);
                }
            }
            path.truncate(l);
            None
        }
        _ => {
            if a == b {
                None
            } else {
                Some(path.clone())
            }
        }
    }
}
pub fn first_diff<T: serde::Serialize + std::fmt::Debug>(a: &T, b: &T) -> String {
    let (x, y) = (serde_json::to_value(a), serde_json::to_value(b));
    let j = match (x, y) {
        (Ok(x), Ok(y)) => json_diff(&x, &y, &mut String::new()),
        _ => None,
    };
    j.unwrap_or_else(|| debug_diff(a, b))
}
/// Fallback for fields the serialised form does not show: first differing line of the pretty Debug form
pub fn debug_diff<T: std::fmt::Debug>(a: &T, b: &T) -> String {
    let (x, y) = (format!("{:#?}", a), format!("{:#?}", b));
    for (l, m) in x.lines().zip(y.lines()) {
        if l != m {
            let field = l.trim().split(':').next().unwrap_or("").trim();
            return format!("unserialised-field:{}", field);
        }
    }
    "(no visible difference)".into()
}
/// JSON artefact of a library, bounded in size
pub fn lib_artefact(lib: &GdsLibrary) -> Value {
    match serde_json::to_string(lib) {
        Ok(s) if s.len() <= 20_000 => serde_json::from_str(&s).unwrap_or(Value::Null),
        Ok(s) => Value::String(format!("(library JSON is {} bytes; see tapes) {}", s.len(), crate::engine::truncate(&s, 4000))),
        Err(e) => Value::String(format!("unserialisable: {}", e)),
    }
}
pub fn hex(b: &[u8]) -> String {
    let n = b.len().min(4096);
    let mut s: String = b[..n].iter().map(|x| format!("{:02x}", x)).collect();
    if b.len() > n {
        s.push_str(&format!("…(+{} bytes)", b.len() - n));
    }
    s
}
/// Does any record of this library exceed the 16-bit record length? (then write may fail)
pub fn has_oversize(lib: &GdsLibrary) -> bool {
    let s_over = |s: &str| s.len() + s.len() % 2 + 4 > 0xFFFF;
    let xy_over = |n: usize| n * 8 + 4 > 0xFFFF;
    if s_over(&lib.name) {
        return true;
    }
    for s in &lib.structs {
        if s_over(&s.name) {
            return true;
        }
        for e in &s.elems {
            let (strs, pts, pr): (Vec<&str>, usize, &Vec<GdsProperty>) = match e {
                GdsElement::GdsBoundary(x) => (vec![], x.xy.len(), &x.properties),
                GdsElement::GdsPath(x) => (vec![], x.xy.len(), &x.properties),
                GdsElement::GdsStructRef(x) => (vec![&x.name], 1, &x.properties),
                GdsElement::GdsArrayRef(x) => (vec![&x.name], 3, &x.properties),
                GdsElement::GdsTextElem(x) => (vec![&x.string], 1, &x.properties),
                GdsElement::GdsNode(x) => (vec![], x.xy.len(), &x.properties),
                GdsElement::GdsBox(x) => (vec![], 5, &x.properties),
            };
            if xy_over(pts) || strs.iter().any(|s| s_over(s)) || pr.iter().any(|p| s_over(&p.value)) {
                return true;
            }
        }
    }
    false
}
