//! C11 — the LEF reader never crashes or hangs on any input text.
//! Stored text -> damage (every prefix, single-token faults, non-ASCII injection) -> real `LefLibrary::open`.

use super::c05::{lef_artefact, lef_err_sig};
use crate::engine::*;
use crate::gen_lef::*;
use crate::rng::{fnv64, Digest};
use crate::simio::*;
use lef21::LefLibrary;
use serde_json::{json, Value};

pub struct C11;

pub const CORPUS: [(&str, &str); 13] = [
    ("macro.lef", include_str!("../../../corpus/lef/macro.lef")),
    ("snippet01", include_str!("../../../corpus/lef/snippet01.lef")),
    ("snippet02", include_str!("../../../corpus/lef/snippet02.lef")),
    ("snippet03", include_str!("../../../corpus/lef/snippet03.lef")),
    ("snippet04", include_str!("../../../corpus/lef/snippet04.lef")),
    ("snippet05", include_str!("../../../corpus/lef/snippet05.lef")),
    ("snippet06", include_str!("../../../corpus/lef/snippet06.lef")),
    ("snippet07", include_str!("../../../corpus/lef/snippet07.lef")),
    ("snippet08", include_str!("../../../corpus/lef/snippet08.lef")),
    ("snippet09", include_str!("../../../corpus/lef/snippet09.lef")),
    ("snippet10", include_str!("../../../corpus/lef/snippet10.lef")),
    ("snippet11", include_str!("../../../corpus/lef/snippet11.lef")),
    ("snippet12-nonascii-names", include_str!("../../../corpus/lef/snippet12.lef")),
];
const INP: &str = "/sim/damaged.lef";
const OUT: &str = "/sim/rewritten.lef";

/// Harness tokeniser (not lef21's): byte spans of words, string literals, `;` and comments
#[derive(Clone, Copy, Debug, PartialEq)]
enum TK {
    Word,
    Str,
    Comment,
}
fn tokenize(s: &str) -> Vec<(usize, usize, TK)> {
    let b = s.as_bytes();
    let mut v = Vec::new();
    let mut i = 0;
    while i < b.len() {
        let c = b[i];
        if c.is_ascii_whitespace() {
            i += 1;
        } else if c == b'#' {
            let st = i;
            while i < b.len() && b[i] != b'\n' {
                i += 1;
            }
            v.push((st, i, TK::Comment));
        } else if c == b'"' {
            let st = i;
            i += 1;
            while i < b.len() && b[i] != b'"' {
                i += 1;
            }
            i = (i + 1).min(b.len());
            v.push((st, i, TK::Str));
        } else {
            let st = i;
            while i < b.len() && !b[i].is_ascii_whitespace() {
                i += 1;
            }
            v.push((st, i, TK::Word));
        }
    }
    v
}

const REPLACEMENTS: [&str; 52] = [
    "END", "MACRO", "LAYER", "PIN", ";", "1.5", "-3", "\"unterminated", "RECT", "LIBRARY", "é", "1é", "-é", ".日",
    // numeric extremes: decimal / integer / float limits and odd spellings
    "79228162514264337593543950335", "-79228162514264337593543950335", "79228162514264337593543950336", "99999999999999999999999999999999999999", "0.0000000000000000000000000001", "0.00000000000000000000000000000000001",
    "7922816251426433759354395033.5", "7922816251426433759354395034", "-7922816251426433759354395034", "39614081257132168796771975168", "792281625142643375935439504", "281474976710657", "4294967296", "-2147483649", "18446744073709551616", "1e308", "1e-400", "-0", "-", ".", "-.5",
    // string literals spanning lines, and ASCII characters no token can start with
    "\r", "\r\n", "\u{feff}", "\x0c", "\x0b", "\"multi\nline\"", "\"two\n\nbreaks", "\"é\n日\"", "\"\n", "_x", "(", "$", "*", "=", "€", "§", "@name",
];
const NONASCII: [&str; 6] = ["é", "日本", "😀", "e\u{301}", "ß", "\u{a0}"];

fn token_faults(text: &str, toks: &[(usize, usize, TK)], i: usize) -> Vec<(String, String)> {
    let (s, e, k) = toks[i];
    let mut v: Vec<(String, String)> = Vec::new();
    let rep = |with: &str| format!("{}{}{}", &text[..s], with, &text[e..]);
    v.push((format!("tok{}:delete", i), rep("")));
    v.push((format!("tok{}:duplicate", i), rep(&format!("{} {}", &text[s..e], &text[s..e]))));
    if i + 1 < toks.len() {
        let (s2, e2, _) = toks[i + 1];
        v.push((format!("tok{}:swap", i), format!("{}{}{}{}{}", &text[..s], &text[s2..e2], &text[e..s2], &text[s..e], &text[e2..])));
    }
    for r in REPLACEMENTS.iter() {
        v.push((format!("tok{}:replace({})", i, r), rep(r)));
    }
    for n in NONASCII.iter() {
        match k {
            TK::Word => {
                v.push((format!("tok{}:append-nonascii({})", i, n), rep(&format!("{}{}", &text[s..e], n))));
                v.push((format!("tok{}:prepend-nonascii({})", i, n), rep(&format!("{}{}", n, &text[s..e]))));
            }
            TK::Str => {
                if e - s >= 2 {
                    v.push((format!("tok{}:nonascii-in-string({})", i, n), rep(&format!("\"{}{}", n, &text[s + 1..e]))));
                }
            }
            TK::Comment => {
                v.push((format!("tok{}:nonascii-in-comment({})", i, n), rep(&format!("{} {}", &text[s..e], n))));
            }
        }
    }
    // long tokens whose multi-byte character straddles byte offsets 20..34 (fixed-size prefixes, keyword-length cut-offs)
    if k == TK::Word && i % 4 == 0 {
        for l in 20..34usize {
            v.push((format!("tok{}:replace(long-name-{}+nonascii)", i, l), rep(&format!("{}{}", "a".repeat(l), NONASCII[l % 3]))));
        }
        v.push((format!("tok{}:replace(cjk-word)", i), rep("日本語日本語日本語日本語日本語")));
    }
    // a name that parts from its twin INSIDE a multi-byte character: the last non-ASCII character of the token is
    // replaced by a neighbour that shares its leading byte(s) (e -> e', a CJK character -> the next code point)
    if k == TK::Word {
        if let Some((ci, c)) = text[s..e].char_indices().filter(|(_, c)| !c.is_ascii()).last() {
            for d in [1u32, 2, 0x10] {
                if let Some(c2) = char::from_u32(c as u32 ^ d) {
                    if c2.len_utf8() == c.len_utf8() && !c2.is_whitespace() {
                        let mut w = text[s..e].to_string();
                        w.replace_range(ci..ci + c.len_utf8(), &c2.to_string());
                        v.push((format!("tok{}:sibling-character(^{})", i, d), rep(&w)));
                    }
                }
            }
        }
    }
    // a non-ASCII comment line in front of this token (shifts every later position)
    v.push((format!("tok{}:nonascii-comment-before", i), format!("{}# {} \n{}", &text[..s], NONASCII[i % NONASCII.len()], &text[s..])));
    v
}

fn read_case(io: &Io, bytes: &[u8], label: &str, probes: &mut Probes) -> Option<Violation> {
    tick();
    note_case("text_hex", bytes);
    let fs = SimFs::new(io);
    let _g = fs.install();
    fs.put(INP, bytes.to_vec());
    // one case in eight arrives in 1..7-byte pieces, so multi-byte characters are split across read() calls
    let h = fnv64(bytes);
    if h % 8 == 0 {
        fs.plan(INP, FilePlan { read: Policy { chunk_max: 1 + (h >> 8) as usize % 7, eintr_pm: if (h >> 16) % 2 == 0 { 100 } else { 0 }, ..Default::default() }, ..Default::default() });
        probes.hit("delivered_in_small_pieces");
    } else if h % 16 == 1 && bytes.len() > 1 {
        // the file shrinks while it is being read: its size (seek to end) says `len`, the data ends earlier
        fs.plan(INP, FilePlan { read: Policy { eof_at: Some((h >> 8) % bytes.len() as u64), ..Default::default() }, ..Default::default() });
        probes.hit("file_shrank_while_reading");
    }
    let art = || json!({"damage": label, "text": String::from_utf8_lossy(&bytes[..bytes.len().min(6000)]), "text_len": bytes.len()});
    let t0 = thread_cpu_secs();
    let res = guard(|| LefLibrary::open(fs.sp(INP)));
    let dt = thread_cpu_secs() - t0;
    // 50 ms + 1 us/byte of *CPU time of this thread*, x100 margin: machine load cannot trip it, only super-linear work can
    if dt * 1e6 > 100.0 * (50_000.0 + bytes.len() as f64) {
        return Some(Violation { class: "hang".into(), sig: "read-time-budget-exceeded".into(), detail: format!("reading {} bytes took {:.1}s of CPU time", bytes.len(), dt), artefact: art() });
    }
    match res {
        Err(p) => Some(panic_violation("LefLibrary::open", &p, art())),
        Ok(Err(e)) => {
            probes.hit("reader_returned_err");
            match guard(|| format!("{} / {:?}", e, e)) {
                Err(p) => Some(panic_violation("LefError Display", &p, art())),
                Ok(_) => None,
            }
        }
        Ok(Ok(l)) => {
            probes.hit("reader_returned_ok");
            // any library it returns can be written and read again without a crash — also when the disk fails mid-way
            if h % 16 == 5 {
                fs.plan(OUT, FilePlan { write: Policy { terms: vec![Term { at: (h >> 20) % 64, kind: TermKind::Enospc, sticky: true }], ..Default::default() }, ..Default::default() });
                probes.hit("save_with_disk_full");
            }
            match guard(|| l.save(fs.sp(OUT))) {
                Err(p) => return Some(panic_violation("LefLibrary::save(of a library the reader returned)", &p, json!({"damage": label, "library": lef_artefact(&l)}))),
                Ok(Err(_)) => {
                    probes.hit("returned_library_not_writable(Err)");
                    return None;
                }
                Ok(Ok(())) => {}
            }
            match guard(|| LefLibrary::open(fs.sp(OUT))) {
                Err(p) => Some(panic_violation("LefLibrary::open(rewritten)", &p, json!({"damage": label, "library": lef_artefact(&l)}))),
                Ok(Err(e)) => {
                    probes.hit(&format!("rewritten_rejected:{}", truncate(&lef_err_sig(&e), 50)));
                    None
                }
                Ok(Ok(_)) => None,
            }
        }
    }
}

impl Check for C11 {
    fn id(&self) -> &'static str {
        "C11"
    }
    fn level(&self) -> &'static str {
        "fault_enumeration"
    }
    fn runs(&self, tier: Tier) -> u64 {
        match tier {
            Tier::Quick => 400,
            Tier::Thorough => 40_000,
        }
    }
    fn secs(&self, tier: Tier) -> u64 {
        match tier {
            Tier::Quick => 240,
            Tier::Thorough => 900,
        }
    }
    fn hang_secs(&self) -> u64 {
        10
    }
    fn shrinkable(&self) -> bool {
        false
    }
    fn rule(&self) -> String {
        "One run = one valid LEF text (runs 0..11: the repository's macro.lef and the LEF snippets embedded in lef21's tests; others: G-lef renderings, 1 in 3 with non-ASCII comments/names) and, on it: EVERY prefix (cut at every byte; cuts inside a multi-byte character are delivered as raw bytes), EVERY single-token fault for every token of a harness tokenisation (deleted, duplicated, swapped with its neighbour, replaced by END/MACRO/LAYER/PIN/;/a number/an unterminated string/non-ASCII words, non-ASCII appended/prepended/inserted into names, string literals and comments, a non-ASCII comment line placed before the token; quick tier on texts > 1500 bytes: a seeded 1/4 sample of tokens), plus seeded multi-fault and random-text cases; three scale runs read 64 KiB, 256 KiB and 1 MiB texts (valid, cut, unterminated string, one very long name/number/comment, non-ASCII first line) and 15 texts that repeat one construct 20 000 times inside one enclosing object (PROPERTY statements in a macro / a pin, pins, ports, rectangles, layers, polygon points, antenna attributes, sites, vias, property definitions, extension tokens, density rectangles, symmetries), so that super-linear behaviour trips the watchdog; one case in sixteen is read from a file that shrinks while being read (end-of-file before the size reported by seek). Each case is stored in SimFs and read by the real LefLibrary::open; one case in eight is delivered in 1..7-byte pieces with EINTR, so multi-byte characters are split across read() calls. evaluations counts cases; non-trivial = damaged text differs from the valid one; distinct = distinct damaged-text digests.".into()
    }
    fn assumptions(&self) -> Vec<String> {
        vec!["the parser performs no I/O after read_to_string, so termination is bounded by CPU time of the reading thread (100 x (50 ms + 1 us/byte)) and the supervisor watchdog (10 s of child CPU time without progress), not by a step counter".into(), "stack overflow / abort are contained by the child process; workers run under an 8 GiB address-space limit, so an absurd reservation fails and aborts instead of succeeding lazily".into(), "exhaustive over the listed fault kinds for the texts explored only".into()]
    }
    fn real_vs_stub(&self) -> Value {
        json!({"real": ["lef21 lexer, parser, error reporting, writer"], "stub": ["file system (SimFs) delivering the damaged text"], "harness_tokeniser": ["whitespace/string/comment splitter used to address tokens"]})
    }
    fn run(&self, inp: RunIn) -> RunOut {
        let mut wt = inp.wtape;
        let io = new_io(inp.ftape, inp.want_sample);
        let mut out = RunOut::new();
        if let Some(h) = inp.extra.get("text_hex").and_then(|v| v.as_str()) {
            let bytes: Vec<u8> = (0..h.len() / 2).filter_map(|i| u8::from_str_radix(&h[2 * i..2 * i + 2], 16).ok()).collect();
            out.violation = read_case(&io, &bytes, "replay", &mut out.probes);
            out.digest = io.borrow().log.finish();
            return out;
        }
        // scale runs: a large valid text and a handful of faults on it; a super-linear reader trips the watchdog
        if inp.index >= CORPUS.len() as u64 && inp.index < CORPUS.len() as u64 + 3 {
            let target = [64usize << 10, 256 << 10, 1 << 20][(inp.index - CORPUS.len() as u64) as usize];
            let mut big = String::from("VERSION 5.8 ;\n");
            let mut k = 0;
            while big.len() < target {
                let (t, _) = gen_lef_text(&mut wt, false);
                // keep only the MACRO blocks of each generated text, renamed apart
                for (mi, chunk) in t.split("MACRO ").enumerate().skip(1) {
                    if chunk.contains("END LIBRARY") || chunk.contains("BEGINEXT") || chunk.contains("PROPERTYDEFINITIONS") || chunk.contains("\nSITE ") || chunk.contains("\nVIA ") || chunk.contains("UNITS") {
                        continue;
                    }
                    big.push_str("MACRO ");
                    big.push_str(chunk);
                    big.push('\n');
                    k += mi;
                }
                if t.is_empty() {
                    big.push_str("# filler\n");
                }
            }
            let _ = k;
            let b = big.as_bytes();
            let mut cases: Vec<(String, Vec<u8>)> = vec![("scale:valid".into(), b.to_vec())];
            for cut in [b.len() - 1, b.len() / 2, b.len() - 7] {
                cases.push((format!("scale:prefix@{}", cut), b[..cut].to_vec()));
            }
            cases.push(("scale:unterminated-string-at-start".into(), format!("VERSION 5.8 ;\nBUSBITCHARS \"[ ;\n{}", &big[14..]).into_bytes()));
            cases.push(("scale:comment-without-newline".into(), format!("# {}", big.replace('\n', " ")).into_bytes()));
            cases.push(("scale:one-long-name".into(), format!("MACRO {} END", "x".repeat(target)).into_bytes()));
            cases.push(("scale:one-long-number".into(), format!("VERSION 5.{} ;", "8".repeat(target)).into_bytes()));
            cases.push(("scale:nonascii-first-line".into(), format!("# é日本😀\n{}", big).into_bytes()));
            if inp.index == CORPUS.len() as u64 {
                // one construct repeated many times inside ONE enclosing object: per-statement work that grows with what
                // was collected so far (quadratic) trips the watchdog
                let n = 20_000;
                let rep = |head: &str, item: &dyn Fn(usize) -> String, tail: &str| -> Vec<u8> {
                    let mut s = String::from(head);
                    for i in 0..n {
                        s.push_str(&item(i));
                    }
                    s.push_str(tail);
                    s.into_bytes()
                };
                cases.push(("scale:one-macro-many-PROPERTY".into(), rep("VERSION 5.8 ;\nMACRO m\n", &|i| format!("PROPERTY p{} {} ;\n", i, i), "END m\n")));
                cases.push(("scale:one-pin-many-PROPERTY".into(), rep("VERSION 5.8 ;\nMACRO m\nPIN a\n", &|i| format!("PROPERTY p{} \"v{}\" ;\n", i, i), "END a\nEND m\n")));
                cases.push(("scale:one-PROPERTY-many-pairs".into(), rep("VERSION 5.8 ;\nMACRO m\nPROPERTY ", &|i| format!("p{} {} ", i, i), ";\nEND m\n")));
                cases.push(("scale:one-macro-many-pins".into(), rep("VERSION 5.8 ;\nMACRO m\n", &|i| format!("PIN a{}\nDIRECTION INPUT ;\nEND a{}\n", i, i), "END m\n")));
                cases.push(("scale:one-pin-many-ports".into(), rep("VERSION 5.8 ;\nMACRO m\nPIN a\n", &|_| "PORT\nLAYER m1 ;\nRECT 0 0 1 1 ;\nEND\n".to_string(), "END a\nEND m\n")));
                cases.push(("scale:one-layer-many-rects".into(), rep("VERSION 5.8 ;\nMACRO m\nOBS\nLAYER m1 ;\n", &|i| format!("RECT {} 0 {} 1 ;\n", i, i + 1), "END\nEND m\n")));
                cases.push(("scale:one-obs-many-layers".into(), rep("VERSION 5.8 ;\nMACRO m\nOBS\n", &|i| format!("LAYER m{} ;\nRECT 0 0 1 1 ;\n", i), "END\nEND m\n")));
                cases.push(("scale:one-polygon-many-points".into(), rep("VERSION 5.8 ;\nMACRO m\nOBS\nLAYER m1 ;\nPOLYGON ", &|i| format!("{} {} ", i, i % 7), ";\nEND\nEND m\n")));
                cases.push(("scale:one-pin-many-antenna".into(), rep("VERSION 5.8 ;\nMACRO m\nPIN a\n", &|i| format!("ANTENNAGATEAREA {} LAYER m{} ;\n", i, i % 9), "END a\nEND m\n")));
                cases.push(("scale:many-sites".into(), rep("VERSION 5.8 ;\n", &|i| format!("SITE s{}\nCLASS CORE ;\nSIZE 1 BY 2 ;\nEND s{}\n", i, i), "")));
                cases.push(("scale:many-vias".into(), rep("VERSION 5.8 ;\n", &|i| format!("VIA v{}\nLAYER m1 ;\nRECT 0 0 1 1 ;\nEND v{}\n", i, i), "")));
                cases.push(("scale:many-propdefs".into(), rep("VERSION 5.8 ;\nPROPERTYDEFINITIONS\n", &|i| format!("MACRO p{} INTEGER ;\n", i), "END PROPERTYDEFINITIONS\n")));
                cases.push(("scale:one-extension-many-tokens".into(), rep("VERSION 5.8 ;\nBEGINEXT \"x\" ", &|i| format!("t{} ", i), "ENDEXT\n")));
                cases.push(("scale:one-density-many-rects".into(), rep("VERSION 5.8 ;\nMACRO m\nDENSITY\nLAYER m1 ;\n", &|i| format!("RECT {} 0 {} 1 0.5 ;\n", i, i + 1), "END\nEND m\n")));
                cases.push(("scale:many-blank-lines".into(), format!("VERSION 5.8 ;{}\nMACRO m\nEND m\n", "\n".repeat(400_000)).into_bytes()));
                cases.push(("scale:many-comment-lines".into(), format!("VERSION 5.8 ;\n{}MACRO m\nEND m\n", "# c\n".repeat(200_000)).into_bytes()));
                cases.push(("scale:many-spaces-and-tabs".into(), format!("VERSION 5.8 ;{}MACRO m\nEND m\n", " \t".repeat(300_000)).into_bytes()));
                cases.push(("scale:symmetry-many".into(), rep("VERSION 5.8 ;\nMACRO m\nSYMMETRY ", &|_| "X Y R90 ".to_string(), ";\nEND m\n")));
            }
            for (label, bytes) in &cases {
                let full = format!("scale({} bytes) / {}", bytes.len(), label);
                if let Some(v) = read_case(&io, bytes, &full, &mut out.probes) {
                    if out.violation.is_none() {
                        out.replay_extra = json!({"text_hex": bytes.iter().map(|b| format!("{:02x}", b)).collect::<String>(), "damage": full});
                        out.violation = Some(v);
                    }
                }
                out.probes.hit("case_scale");
                out.probes.add("scale_bytes_read", bytes.len() as u64);
                out.more_keys.push(fnv64(bytes));
            }
            out.evals = cases.len() as u64;
            if inp.want_sample {
                out.sample = Some(json!({"text": "scale run", "text_len": b.len(), "cases": cases.iter().map(|c| c.0.clone()).collect::<Vec<_>>()}));
            }
            out.digest = fnv64(format!("{}{}", b.len(), out.violation.is_some()).as_bytes());
            out.wtape = wt.used();
            return out;
        }
        let (name, text) = if (inp.index as usize) < CORPUS.len() {
            (format!("corpus:{}", CORPUS[inp.index as usize].0), CORPUS[inp.index as usize].1.to_string())
        } else {
            let allow = wt.chance(1, 3);
            let (t, _sw) = gen_lef_text(&mut wt, allow);
            (format!("g-lef(utf8={})", allow), t)
        };
        let thorough = inp.tier == Tier::Thorough;
        let small = text.len() <= 1500;
        // every prefix and every token fault of a text costs O(len^2) bytes of cases: exhaustive up to 6 000 bytes in
        // the thorough tier (1 500 in the quick tier), sampled beyond (G-lef texts with 400-vertex polygons reach 30 KB)
        let exhaustive = small || (inp.tier == Tier::Thorough && text.len() <= 6000);
        let mut cases: Vec<(String, Vec<u8>)> = Vec::new();
        cases.push(("valid".into(), text.clone().into_bytes()));
        let b = text.as_bytes();
        if exhaustive {
            for t in 0..b.len() {
                cases.push((format!("prefix@{}", t), b[..t].to_vec()));
            }
        } else {
            for _ in 0..200 {
                let t = wt.draw(b.len() as u64) as usize;
                cases.push((format!("prefix@{}", t), b[..t].to_vec()));
            }
        }
        let toks = tokenize(&text);
        let keep_one_in = if exhaustive { 1 } else { 4u64.max(text.len() as u64 / 1500) };
        for i in 0..toks.len() {
            tick();
            if keep_one_in > 1 && wt.draw(keep_one_in) != 0 {
                continue;
            }
            for (l, t) in token_faults(&text, &toks, i) {
                cases.push((l, t.into_bytes()));
            }
        }
        // a statement opened by some keyword where the text is cut at a token boundary, never closed by `;` (what a
        // reader that skips or collects "until the semicolon" meets at end of input); two keywords per sampled boundary
        const OPENERS: [&str; 40] = ["PROPERTY", "FOREIGN", "ORIGIN", "SIZE", "SYMMETRY", "SITE", "CLASS", "SOURCE", "EEQ", "DENSITY", "LAYER", "RECT", "POLYGON", "PATH", "VIA", "PORT", "OBS", "PIN", "DIRECTION", "USE", "SHAPE", "ANTENNAMODEL", "ANTENNAGATEAREA", "ANTENNADIFFAREA", "TAPERRULE", "NETEXPR", "SUPPLYSENSITIVITY", "GROUNDSENSITIVITY", "MUSTJOIN", "UNITS", "DATABASE", "VERSION", "BUSBITCHARS", "DIVIDERCHAR", "NAMESCASESENSITIVE", "MANUFACTURINGGRID", "PROPERTYDEFINITIONS", "BEGINEXT", "FIXEDMASK", "VIARULE"];
        for i in 0..toks.len() {
            if !exhaustive && wt.draw(keep_one_in) != 0 {
                continue;
            }
            let at = toks[i].0;
            for _ in 0..2 {
                let kw = *wt.pick(&OPENERS);
                let tail = *wt.pick(&["", " p", " p 1", " p 1 2", " \"v", " p \"v\""]);
                cases.push((format!("cut-before-token#{}+unclosed({}{})", i, kw, tail), format!("{}{}{}", &text[..at], kw, tail).into_bytes()));
            }
        }
        // end-of-input / end-of-line injections and seeded combinations
        for n in NONASCII.iter() {
            cases.push((format!("append-at-end({})", n), format!("{}{}", text, n).into_bytes()));
            cases.push((format!("append-at-end-after-space({})", n), format!("{} {}", text, n).into_bytes()));
            if let Some(p) = text.find('\n') {
                cases.push((format!("at-first-eol({})", n), format!("{}{}{}", &text[..p], n, &text[p..]).into_bytes()));
            }
        }
        let nseed = if thorough { 128 } else { 32 };
        for _ in 0..nseed {
            match wt.draw(3) {
                0 if !toks.is_empty() => {
                    // two token faults combined
                    let i = wt.draw(toks.len() as u64) as usize;
                    let f1 = token_faults(&text, &toks, i);
                    let (l1, t1) = f1[wt.draw(f1.len() as u64) as usize].clone();
                    let toks2 = tokenize(&t1);
                    if !toks2.is_empty() {
                        let j = wt.draw(toks2.len() as u64) as usize;
                        let f2 = token_faults(&t1, &toks2, j);
                        let (l2, t2) = f2[wt.draw(f2.len() as u64) as usize].clone();
                        cases.push((format!("{}+{}", l1, l2), t2.into_bytes()));
                    }
                }
                1 => {
                    let n = wt.draw(120);
                    let alphabet: Vec<char> = "MACRO END PIN ; \n\t\"#.-0123456789abcXYZéß日😀".chars().collect();
                    let s: String = (0..n).map(|_| *wt.pick(&alphabet)).collect();
                    cases.push(("random-text".into(), s.into_bytes()));
                }
                _ => {
                    let t = wt.draw(b.len() as u64 + 1) as usize;
                    let n = wt.draw(24);
                    let mut v = b[..t].to_vec();
                    v.extend((0..n).map(|_| wt.bits() as u8));
                    cases.push((format!("prefix@{}+random-bytes", t), v));
                }
            }
        }
        let valid_digest = fnv64(text.as_bytes());
        let mut log = Digest::new();
        let mut seen: Vec<String> = Vec::new();
        for (label, bytes) in &cases {
            let full = format!("{} / {}", name, label);
            let v = read_case(&io, bytes, &full, &mut out.probes);
            let dd = fnv64(bytes);
            log.u64(dd);
            if dd != valid_digest {
                out.more_keys.push(dd);
            }
            let kind = label.split(':').nth(1).unwrap_or(label).split('(').next().unwrap_or("").split('@').next().unwrap_or("").to_string();
            out.probes.hit(&format!("case_{}", kind));
            if std::str::from_utf8(bytes).is_err() {
                out.probes.hit("case_invalid_utf8_bytes");
            }
            if let Some(v) = v {
                let key = format!("{}|{}", v.class, v.sig);
                if !seen.contains(&key) {
                    seen.push(key);
                    let extra = json!({"text_hex": bytes.iter().map(|b| format!("{:02x}", b)).collect::<String>(), "damage": full});
                    if out.violation.is_none() {
                        out.violation = Some(v);
                        out.replay_extra = extra;
                    } else {
                        out.also.push((v, extra));
                    }
                }
            }
        }
        out.evals = cases.len() as u64;
        if inp.want_sample {
            out.sample = Some(json!({"text": name, "text_len": text.len(), "tokens": toks.len(), "cases": cases.len(), "example_cases": cases.iter().step_by((cases.len() / 12).max(1)).map(|c| c.0.clone()).take(12).collect::<Vec<_>>(), "text_head": truncate(&text, 400)}));
        }
        let r = io.borrow();
        log.u64(r.log.finish());
        out.digest = log.finish();
        out.stats = r.stats.clone();
        out.steps = r.steps;
        out.sim_ns = r.sim_ns;
        out.wtape = wt.used();
        out.key = valid_digest;
        out.nontrivial = false;
        out
    }
}
