//! C03 — every grammar-conformant GDSII stream is read to exactly the content it encodes.
//! R-gds encoder -> SimFs -> real `GdsLibrary::open` / `from_bytes`.

use super::c01::gds_err_sig;
use super::gdscommon::*;
use super::iocfg::*;
use crate::engine::*;
use crate::gdsref;
use crate::gen_nlib::*;
use crate::rng::fnv64;
use crate::simio::*;
use gds21::GdsLibrary;
use serde_json::{json, Value};

pub struct C03;
pub const INP: &str = "/sim/foreign.gds";

impl Check for C03 {
    fn id(&self) -> &'static str {
        "C03"
    }
    fn level(&self) -> &'static str {
        "exploration"
    }
    fn runs(&self, tier: Tier) -> u64 {
        match tier {
            Tier::Quick => 200_000,
            Tier::Thorough => 80_000_000,
        }
    }
    fn rule(&self) -> String {
        "Neutral-model libraries drawn from the tape (all seven element kinds, every optional-record subset, strings of length 0..400 odd and even — odd ones NUL-padded, even ones unpadded — ASCII or UTF-8, arbitrary i16 dates, in-range reals, properties) are rendered by the independent R-gds encoder in spec BNF order, followed by 0..4096 arbitrary trailing bytes; 1 run in 8 adds one documented-unsupported library-level record (expected outcome: Err). The stream is read by the real reader via from_bytes and via open on a SimSource: fault-free, benign (short reads down to 1 byte, EINTR bursts, chunking; 1 in 4 through a pipe-like source whose seek/stream_position fails with ESPIPE) or terminal (EIO before the end of ENDLIB). Non-trivial = >=1 struct and (fault-free or >=1 fault fired); distinct = distinct (model structure digest, tail length, schedule digest).".into()
    }
    fn assumptions(&self) -> Vec<String> {
        vec!["strings are ASCII or valid UTF-8; STRANS reserved bits are zero; reals are doubles inside the GDSII range".into(), "only record types gds21 documents as valid are emitted (no STRCLASS / TEXTNODE ...)".into(), "whether bytes after ENDLIB are touched is a probe, not an oracle".into()]
    }
    fn real_vs_stub(&self) -> Value {
        json!({"real": ["gds21 reader (GdsReader, GdsParser), GdsFloat64::decode", "byteorder read_exact / read_u64_into"], "stub": ["file system and read answers (SimFs/SimSource)"], "reference_model": ["R-gds encoder"]})
    }
    fn run(&self, inp: RunIn) -> RunOut {
        let mut wt = inp.wtape;
        let mut ft = inp.ftape;
        let cfg = Cfg::draw(&mut ft);
        let (mut nlib, sw) = gen_nlib(&mut wt);
        let with_extra = wt.chance(1, 8);
        if with_extra {
            nlib.extras.push(gen_extra(&mut wt, &sw));
        }
        let tail_len = match wt.draw(6) {
            0 | 1 => 0,
            2 => wt.range(1, 8),
            3 => 2048 - 4,
            _ => wt.range(9, 4096),
        };
        let zero_tail = wt.chance(1, 2);
        let io = new_io(ft, inp.want_sample);
        let mut out = RunOut::new();
        out.probes.hit(&format!("cfg_{}", cfg.name()));
        if with_extra {
            out.probes.hit("with_unsupported_library_record");
        }
        let sd = fnv64(format!("{} tail={}", describe_n(&nlib), tail_len).as_bytes());
        let nonempty = !nlib.structs.is_empty();
        let mut bytes = match gdsref::encode(&nlib) {
            Ok(b) => b,
            Err(_) => {
                out.probes.hit("reference_encoder_declined");
                return super::finish(out, &io, &wt, sd, cfg, 0, false);
            }
        };
        let endlib_end = bytes.len() as u64;
        for i in 0..tail_len {
            bytes.push(if zero_tail { 0 } else { (wt.bits() >> (i % 7)) as u8 });
        }
        let art = |b: &[u8], n: &gdsref::NLib| json!({"stream": hex(b), "model": format!("{:?}", n).chars().take(6000).collect::<String>()});
        let expect = |res: Result<Result<GdsLibrary, gds21::GdsError>, PanicInfo>, how: &str, fired: bool, out: &mut RunOut| {
            match res {
                Err(p) => out.violation = Some(panic_violation(&format!("GdsLibrary::{}", how), &p, art(&bytes, &nlib))),
                Ok(Err(e)) => {
                    if with_extra {
                        out.probes.hit("unsupported_record_reported_as_error");
                    } else if fired {
                        out.probes.hit("read_error_reported");
                    } else {
                        out.violation = Some(Violation { class: "conformant-stream-rejected".into(), sig: format!("{}:{}", how, gds_err_sig(&e)), detail: format!("a grammar-conformant stream is rejected: {}", truncate(&e.to_string(), 300)), artefact: art(&bytes, &nlib) });
                    }
                }
                Ok(Ok(l)) => {
                    if with_extra {
                        out.violation = Some(Violation { class: "unsupported-feature-accepted".into(), sig: format!("{}:{:?}", how, nlib.extras.first().map(|e| format!("{:?}", e).split('(').next().unwrap_or("").to_string())), detail: "a stream using a documented-unsupported library-level record was read into a library instead of being reported".into(), artefact: art(&bytes, &nlib) });
                    } else {
                        let mut want = nlib.clone();
                        want.extras.clear();
                        let got = model_of(&l);
                        if let Some(d) = gdsref::diff(&want, &got) {
                            out.violation = Some(Violation { class: if fired { "wrong-data-after-read-error".into() } else { "misread".into() }, sig: format!("{}:{}", how, d), detail: format!("the library read differs from the encoded one at {}", d), artefact: art(&bytes, &nlib) });
                        } else if fired {
                            out.probes.hit("read_error_swallowed_value_right");
                        }
                    }
                }
            }
        };
        // from_bytes: always fault-free
        let r = guard(|| GdsLibrary::from_bytes(&bytes));
        expect(r, "from_bytes", false, &mut out);
        if inp.want_sample {
            out.sample = Some(json!({"configuration": cfg.name(), "model": describe_n(&nlib), "stream_len": bytes.len(), "tail_len": tail_len, "first_bytes": hex(&bytes[..bytes.len().min(96)])}));
        }
        let mut extra = tail_len;
        if out.violation.is_none() {
            let fs = SimFs::new(&io);
            let _g = fs.install();
            fs.put(INP, bytes.clone());
            let pol = match cfg {
                Cfg::FaultFree => Policy::plain(),
                Cfg::Benign => {
                    let mut p = benign(&mut io.borrow_mut().ftape);
                    // a pipe-like source (FIFO, /dev/stdin): a conformant stream must still be read; seeking is refused
                    if !with_extra && io.borrow_mut().ftape.chance(1, 4) {
                        p.not_seekable = true;
                        out.probes.hit("source_not_seekable");
                    }
                    p
                }
                Cfg::Terminal => terminal_read(&mut io.borrow_mut().ftape, endlib_end, true),
            };
            extra ^= policy_digest(&pol);
            fs.plan(INP, FilePlan { read: pol, ..Default::default() });
            let before = io.borrow().errors_returned.len();
            let r = guard(|| GdsLibrary::open(fs.sp(INP)));
            let fired = io.borrow().errors_returned.len() > before;
            expect(r, "open", fired, &mut out);
            // history: the file is replaced by another conformant stream of the SAME length; opening the same path again
            // must yield the new content (a cache keyed by path/size/mtime would not)
            if out.violation.is_none() && !with_extra && cfg == Cfg::FaultFree {
                let mut n2 = nlib.clone();
                n2.version = n2.version.wrapping_add(1);
                for s in n2.structs.iter_mut() {
                    for e in s.elems.iter_mut() {
                        if let Some(l) = e.layer.as_mut() {
                            *l = l.wrapping_add(1);
                        }
                    }
                }
                if let Ok(mut b2) = gdsref::encode(&n2) {
                    b2.extend_from_slice(&bytes[endlib_end as usize..]);
                    if b2.len() == bytes.len() {
                        fs.put(INP, b2.clone());
                        fs.plan(INP, FilePlan::default());
                        match guard(|| GdsLibrary::open(fs.sp(INP))) {
                            Ok(Ok(l)) => {
                                n2.extras.clear();
                                if let Some(d) = gdsref::diff(&n2, &model_of(&l)) {
                                    out.violation = Some(Violation { class: "misread".into(), sig: format!("reopen-after-overwrite:{}", d), detail: format!("after the file was replaced by a different stream of the same length, open returns content that differs at {} (stale?)", d), artefact: art(&b2, &n2) });
                                } else {
                                    out.probes.hit("reopen_after_same_length_overwrite_ok");
                                }
                            }
                            Ok(Err(e)) => out.violation = Some(Violation { class: "conformant-stream-rejected".into(), sig: format!("reopen-after-overwrite:{}", gds_err_sig(&e)), detail: format!("second open of the same path fails: {}", truncate(&e.to_string(), 200)), artefact: art(&b2, &n2) }),
                            Err(p) => out.violation = Some(panic_violation("GdsLibrary::open(second time)", &p, art(&b2, &n2))),
                        }
                    }
                }
            }
            let hw = fs.read_marks.borrow().get(INP).map(|m| *m.borrow()).unwrap_or(0);
            if hw > endlib_end {
                out.probes.hit("reader_touched_bytes_after_endlib");
            }
        }
        if inp.want_sample {
            if let Some(s) = out.sample.as_mut() {
                s["event_log"] = json!(io.borrow().trace.clone().unwrap_or_default().into_iter().take(30).collect::<Vec<_>>());
            }
        }
        super::finish(out, &io, &wt, sd, cfg, extra, nonempty)
    }
}
