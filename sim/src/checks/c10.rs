//! C10 — the GDSII reader never crashes or hangs on any input bytes.
//! Stored image -> damage (crash-truncation, single-record faults, noise) -> real reader.

use super::c01::gds_err_sig;
use super::gdscommon::*;
use crate::engine::*;
use crate::gdsref::{self, Rec};
use crate::gen_gds::*;
use crate::gen_nlib::*;
use crate::rng::{fnv64, Digest, Tape};
use crate::simio::*;
use gds21::GdsLibrary;
use serde_json::{json, Value};
use std::rc::Rc;

pub struct C10;

pub const CORPUS: [(&str, &[u8]); 3] = [
    ("sample1.gds", include_bytes!("../../../corpus/gds/sample1.gds")),
    ("invalid_dates.gds", include_bytes!("../../../corpus/gds/invalid_dates.gds")),
    ("sky130_fd_sc_hd__dfxtp_1.gds", include_bytes!("../../../corpus/gds/sky130_fd_sc_hd__dfxtp_1.gds")),
];
const INP: &str = "/sim/damaged.gds";
const MAX_IMAGE: usize = 65536;

/// A valid image for run `index`: corpus file, real-writer output of a G-gds library, or R-gds encoding
fn image_for(index: u64, wt: &mut Tape) -> (String, Vec<u8>) {
    if (index as usize) < CORPUS.len() {
        let (n, b) = CORPUS[index as usize];
        return (format!("corpus:{}", n), b.to_vec());
    }
    if wt.chance(1, 12) {
        // one long string (up to the longest payload a record can carry): growth on re-encoding has nowhere to go
        if wt.chance(1, 2) {
            // or one boundary / path / node with thousands of points (a duplicated XY record of > 4095 points ...)
            let npts = *wt.pick(&[4095usize, 4096, 5000, 8191]);
            let mut n = gdsref::NLib { version: 5, dates: [0; 12], name: b"bigxy".to_vec(), units: (1e-3f64.to_bits(), 1e-9f64.to_bits()), structs: vec![], extras: vec![] };
            let kind = *wt.pick(&[gdsref::NKind::Boundary, gdsref::NKind::Path, gdsref::NKind::Node]);
            let mut e = gdsref::NElem::new(kind);
            e.layer = Some(2);
            e.xtype = Some(0);
            e.xy = (0..2 * npts as i32).collect();
            n.structs.push(gdsref::NStruct { dates: [0; 12], name: b"s".to_vec(), elems: vec![e] });
            if let Ok(v) = gdsref::encode(&n) {
                return (format!("r-gds:one-{}-point-{:?}", npts, kind), v);
            }
        }
        let len = *wt.pick(&[21_000usize, 22_000, 30_000, 43_690, 65_530]);
        let mut n = gdsref::NLib { version: 5, dates: [0; 12], name: b"long".to_vec(), units: (1e-3f64.to_bits(), 1e-9f64.to_bits()), structs: vec![], extras: vec![] };
        let mut e = gdsref::NElem::new(gdsref::NKind::Text);
        e.layer = Some(1);
        e.xtype = Some(0);
        e.xy = vec![0, 0];
        e.string = Some(vec![b'a'; len]);
        n.structs.push(gdsref::NStruct { dates: [0; 12], name: b"s".to_vec(), elems: vec![e] });
        if let Ok(v) = gdsref::encode(&n) {
            return (format!("r-gds:one-{}-byte-string", len), v);
        }
    }
    for _ in 0..8 {
        if wt.chance(1, 2) {
            let (lib, _) = gen_lib(wt, StrProfile::Gds);
            let mut v = Vec::new();
            if lib.write(&mut v).is_ok() && v.len() <= MAX_IMAGE {
                return (format!("gds21-writer:{}", describe(&lib)), v);
            }
        } else {
            let (mut n, nsw) = gen_nlib(wt);
            if wt.chance(1, 5) {
                // spec-valid library-level optional records (the reader documents them as unsupported): their
                // single-record faults (e.g. ENDMASKS lost) are as much part of "any bytes" as any other
                n.extras.push(gen_extra(wt, &nsw));
            }
            if let Ok(mut v) = gdsref::encode(&n) {
                if wt.chance(1, 4) {
                    let k = wt.range(1, 64);
                    v.extend(std::iter::repeat(0u8).take(k as usize));
                }
                if v.len() <= MAX_IMAGE {
                    return (format!("r-gds:{}", describe_n(&n)), v);
                }
            }
        }
    }
    // minimal valid library
    let n = gdsref::NLib { version: 5, dates: [0; 12], name: b"x".to_vec(), units: (1e-3f64.to_bits(), 1e-9f64.to_bits()), structs: vec![], extras: vec![] };
    ("r-gds:minimal".into(), gdsref::encode(&n).unwrap())
}

#[derive(Clone, Debug)]
pub enum Damage {
    Truncate(usize),
    /// set the 16-bit length field of record r
    Len(usize, u16),
    /// replace record r by a header-only record (zero-length payload)
    EmptyPayload(usize),
    Rtype(usize, u8),
    Dtype(usize, u8),
    Delete(usize),
    Duplicate(usize),
    Swap(usize),
    /// insert a copy of record j before record r
    Splice(usize, usize),
    /// insert a foreign record (from another image) before record r
    Foreign(usize, Vec<u8>),
    /// overwrite k bytes at offset
    /// overwrite the whole payload of record r with one byte value (e.g. invalid UTF-8 in a string)
    FillPayload(usize, u8),
    /// one extra byte appended to the payload of record r, length field raised by one (an odd-length record in an otherwise intact stream)
    PadByte(usize, u8),
    /// replace the payload of (string) record r by n copies of one byte value, length field n + 4
    GrowPayload(usize, u8, usize),
    Noise(Vec<(usize, u8)>),
    Random(Vec<u8>),
    PrefixPlusRandom(usize, Vec<u8>),
}
fn rec_bytes(r: &Rec) -> Vec<u8> {
    let mut v = Vec::with_capacity(r.payload.len() + 4);
    v.extend_from_slice(&((r.payload.len() + 4) as u16).to_be_bytes());
    v.push(r.rt);
    v.push(r.dt);
    v.extend_from_slice(&r.payload);
    v
}
pub fn apply(img: &[u8], recs: &[Rec], d: &Damage) -> Vec<u8> {
    let end_of = |r: usize| recs[r].at + recs[r].payload.len() + 4;
    match d {
        Damage::Truncate(t) => img[..*t].to_vec(),
        Damage::Len(r, l) => {
            let mut v = img.to_vec();
            v[recs[*r].at..recs[*r].at + 2].copy_from_slice(&l.to_be_bytes());
            v
        }
        Damage::EmptyPayload(r) => {
            let mut v = img[..recs[*r].at].to_vec();
            v.extend_from_slice(&[0, 4, recs[*r].rt, recs[*r].dt]);
            v.extend_from_slice(&img[end_of(*r)..]);
            v
        }
        Damage::Rtype(r, x) => {
            let mut v = img.to_vec();
            v[recs[*r].at + 2] = *x;
            v
        }
        Damage::Dtype(r, x) => {
            let mut v = img.to_vec();
            v[recs[*r].at + 3] = *x;
            v
        }
        Damage::Delete(r) => {
            let mut v = img[..recs[*r].at].to_vec();
            v.extend_from_slice(&img[end_of(*r)..]);
            v
        }
        Damage::Duplicate(r) => {
            let mut v = img[..end_of(*r)].to_vec();
            v.extend_from_slice(&img[recs[*r].at..]);
            v
        }
        Damage::Swap(r) => {
            if *r + 1 >= recs.len() {
                return img.to_vec();
            }
            let mut v = img[..recs[*r].at].to_vec();
            v.extend_from_slice(&img[recs[*r + 1].at..end_of(*r + 1)]);
            v.extend_from_slice(&img[recs[*r].at..end_of(*r)]);
            v.extend_from_slice(&img[end_of(*r + 1)..]);
            v
        }
        Damage::Splice(r, j) => {
            let mut v = img[..recs[*r].at].to_vec();
            v.extend_from_slice(&rec_bytes(&recs[*j]));
            v.extend_from_slice(&img[recs[*r].at..]);
            v
        }
        Damage::Foreign(r, b) => {
            let mut v = img[..recs[*r].at].to_vec();
            v.extend_from_slice(b);
            v.extend_from_slice(&img[recs[*r].at..]);
            v
        }
        Damage::FillPayload(r, b) => {
            let mut v = img.to_vec();
            for x in &mut v[recs[*r].at + 4..end_of(*r)] {
                *x = *b;
            }
            v
        }
        Damage::Noise(edits) => {
            let mut v = img.to_vec();
            for (o, b) in edits {
                if *o < v.len() {
                    v[*o] = *b;
                }
            }
            v
        }
        Damage::Random(b) => b.clone(),
        Damage::PadByte(r, byte) => {
            let mut v = img[..end_of(*r)].to_vec();
            v.push(*byte);
            let l = (recs[*r].payload.len() + 5) as u16;
            v[recs[*r].at..recs[*r].at + 2].copy_from_slice(&l.to_be_bytes());
            v.extend_from_slice(&img[end_of(*r)..]);
            v
        }
        Damage::GrowPayload(r, byte, n) => {
            let mut v = img[..recs[*r].at].to_vec();
            v.extend_from_slice(&((*n + 4) as u16).to_be_bytes());
            v.push(recs[*r].rt);
            v.push(recs[*r].dt);
            v.extend(std::iter::repeat(*byte).take(*n));
            v.extend_from_slice(&img[end_of(*r)..]);
            v
        }
        Damage::PrefixPlusRandom(t, b) => {
            let mut v = img[..*t].to_vec();
            v.extend_from_slice(b);
            v
        }
    }
}
/// Every single-record fault of record r (DESIGN §4.10)
fn record_faults(recs: &[Rec], r: usize, foreign: &[Vec<u8>], full_types: bool) -> Vec<Damage> {
    let total = (recs[r].payload.len() + 4) as u32;
    let mut v = Vec::new();
    for l in [0u32, 2, 3, 4, 5, total.saturating_sub(1), total.saturating_sub(2), total + 1, total + 2, total + 4, 0xFFFE, 0xFFFF] {
        if l != total && l <= 0xFFFF {
            v.push(Damage::Len(r, l as u16));
        }
    }
    v.push(Damage::EmptyPayload(r));
    let rts: Vec<u8> = if full_types { (0u8..=0x3C).chain([0x3D, 0x7F, 0x80, 0xFF]).collect() } else { vec![0x00, 0x02, 0x04, 0x05, 0x07, 0x08, 0x0C, 0x10, 0x11, 0x14, 0x19, 0x1A, 0x1B, 0x2B, 0x2C, 0x34, 0x3B, 0x3C, 0xFF] };
    for x in rts {
        if x != recs[r].rt {
            v.push(Damage::Rtype(r, x));
        }
    }
    for x in [0u8, 1, 2, 3, 4, 5, 6, 7, 0xFF] {
        if x != recs[r].dt {
            v.push(Damage::Dtype(r, x));
        }
    }
    if !recs[r].payload.is_empty() {
        for b in [0xFFu8, 0x80, 0xC3, 0x00] {
            v.push(Damage::FillPayload(r, b));
        }
    }
    for b in [0x00u8, b'x'] {
        v.push(Damage::PadByte(r, b));
    }
    // a string record grown to tens of kilobytes of bytes that are not UTF-8 (whatever a lenient decoder substitutes
    // for them must still fit a record when the library is written again); first records and one in 16 of the rest
    if recs[r].dt == 6 && (r < 3 || r % 16 == 0) {
        v.push(Damage::GrowPayload(r, 0xE9, 21846));
        v.push(Damage::GrowPayload(r, 0xFF, 65530));
    }
    v.push(Damage::Delete(r));
    v.push(Damage::Duplicate(r));
    if r + 1 < recs.len() {
        v.push(Damage::Swap(r));
    }
    // splice: a record from elsewhere in this image, and one from another image
    if recs.len() > 2 {
        v.push(Damage::Splice(r, (r * 7 + 3) % recs.len()));
        v.push(Damage::Splice(r, (r * 13 + recs.len() / 2) % recs.len()));
    }
    if !foreign.is_empty() {
        v.push(Damage::Foreign(r, foreign[r % foreign.len()].clone()));
    }
    v
}

struct CaseOut {
    violation: Option<Violation>,
    ok: bool,
}

/// Read one damaged image through from_bytes (and optionally through a SimSource) and apply O1..O4
fn read_case(img: &[u8], valid_endlib_end: Option<usize>, truncated_at: Option<usize>, via_source: Option<(&Io, Policy)>, label: &str, out_probes: &mut Probes) -> CaseOut {
    tick();
    note_case("image_hex", img);
    let art = |img: &[u8]| json!({"damage": label, "image_hex": hex(img), "image_len": img.len()});
    let res = guard(|| GdsLibrary::from_bytes(img));
    let lib = match res {
        Err(p) => return CaseOut { violation: Some(panic_violation("GdsLibrary::from_bytes", &p, art(img))), ok: false },
        Ok(Err(e)) => {
            // building and Display-ing the error must not crash either
            if let Err(p) = guard(|| e.to_string()) {
                return CaseOut { violation: Some(panic_violation("GdsError Display", &p, art(img))), ok: false };
            }
            out_probes.hit("reader_returned_err");
            None
        }
        Ok(Ok(l)) => Some(l),
    };
    if let Some(ref l) = lib {
        out_probes.hit("reader_returned_ok");
        // O3: truncated before the end of ENDLIB -> never Ok
        if let (Some(t), Some(e)) = (truncated_at, valid_endlib_end) {
            if t < e {
                return CaseOut { violation: Some(Violation { class: "accepted-truncated".into(), sig: "truncated-before-ENDLIB-accepted".into(), detail: format!("stream cut at byte {} (ENDLIB record ends at {}) was accepted", t, e), artefact: art(img) }), ok: true };
            }
        }
        // O3 general: Ok only if the reader can have consumed an ENDLIB record at all. Stated as a necessary
        // condition that holds under any framing leniency: the four bytes of an ENDLIB record occur in the image
        // (a scan-based version would wrongly flag a reader that tolerates, say, odd record lengths).
        if !img.windows(4).any(|w| w == [0, 4, 4, 0]) {
            return CaseOut { violation: Some(Violation { class: "accepted-without-endlib".into(), sig: "accepted-without-ENDLIB".into(), detail: "reader returned a library although the bytes contain no ENDLIB record".into(), artefact: art(img) }), ok: true };
        }
        if gdsref::scan(img, false).is_err() {
            out_probes.hit("accepted_although_spec_framing_breaks_before_endlib");
        }
        // O4: re-serialise and read back
        let mut buf = Vec::new();
        // (the rewrite also goes through a sink that accepts 1..7 bytes per call whenever this case has an I/O schedule)
        if let Some((io, pol)) = via_source.as_ref() {
            if pol.chunk_max > 0 {
                let sink = SimSink::new(io, Policy { chunk_max: pol.chunk_max, ..Default::default() });
                let st = sink.store.clone();
                if let Ok(Ok(())) = guard(|| l.write(sink)) {
                    let mut plain = Vec::new();
                    if l.write(&mut plain).is_ok() && *st.borrow() != plain {
                        return CaseOut { violation: Some(Violation { class: "returned-library-unstable".into(), sig: "rewrite/chunked-sink/bytes".into(), detail: format!("writing a returned library through a sink that takes {} byte(s) per call gives different bytes than writing it to memory", pol.chunk_max), artefact: art(img) }), ok: true };
                    }
                }
            }
        }
        match guard(|| l.write(&mut buf)) {
            Err(p) => return CaseOut { violation: Some(panic_violation("GdsLibrary::write(of a library the reader returned)", &p, art(img))), ok: true },
            Ok(Err(e)) => return CaseOut { violation: Some(Violation { class: "returned-library-unwritable".into(), sig: format!("rewrite:{}", gds_err_sig(&e)), detail: format!("a library the reader returned cannot be written: {}", e), artefact: art(img) }), ok: true },
            Ok(Ok(())) => {}
        }
        match guard(|| GdsLibrary::from_bytes(&buf)) {
            Err(p) => return CaseOut { violation: Some(panic_violation("GdsLibrary::from_bytes(rewritten)", &p, art(img))), ok: true },
            Ok(Err(e)) => return CaseOut { violation: Some(Violation { class: "returned-library-unreadable".into(), sig: format!("reread:{}", gds_err_sig(&e)), detail: format!("a library the reader returned does not read back after writing: {}", truncate(&e.to_string(), 200)), artefact: art(img) }), ok: true },
            Ok(Ok(l2)) => {
                if &l2 != l {
                    let d = first_diff(l, &l2);
                    return CaseOut { violation: Some(Violation { class: "returned-library-unstable".into(), sig: format!("rewrite-roundtrip:{}", d), detail: format!("a library the reader returned changes through write->read at {}", d), artefact: art(img) }), ok: true };
                }
            }
        }
    }
    // O2: bounded work through a counting source; same verdict as from_bytes
    if let Some((io, pol)) = via_source {
        let fs = SimFs::new(io);
        let _g = fs.install();
        fs.put(INP, img.to_vec());
        let benign_faults_before = io.borrow().stats.faults_fired();
        let calls_before = io.borrow().stats.get(K::ReadCalls) + io.borrow().stats.get(K::SeekCalls);
        let req_before = io.borrow().stats.get(K::BytesRequestedRead);
        let chunked = pol.chunk_max;
        fs.plan(INP, FilePlan { read: pol, ..Default::default() });
        let r2 = guard(|| GdsLibrary::open(fs.sp(INP)));
        let calls = io.borrow().stats.get(K::ReadCalls) + io.borrow().stats.get(K::SeekCalls) - calls_before;
        let req = io.borrow().stats.get(K::BytesRequestedRead) - req_before;
        let faults = io.borrow().stats.faults_fired() - benign_faults_before;
        let len = img.len() as u64;
        // bytes *requested* only measure work when every request is granted in full (no chunking):
        // read_exact re-requests its whole remaining buffer after every short answer
        if calls > 4 * len + 3 * faults + 64 || (chunked == 0 && req > 2 * len + 200_000) {
            return CaseOut { violation: Some(Violation { class: "hang".into(), sig: "read-budget-exceeded".into(), detail: format!("reading {} bytes took {} source calls requesting {} bytes ({} schedule faults)", len, calls, req, faults), artefact: art(img) }), ok: lib.is_some() };
        }
        match (r2, &lib) {
            (Err(p), _) => return CaseOut { violation: Some(panic_violation("GdsLibrary::open", &p, art(img))), ok: false },
            (Ok(Ok(l2)), Some(l)) => {
                if &l2 != l {
                    return CaseOut { violation: Some(Violation { class: "not-transparent".into(), sig: "open-vs-from_bytes/value".into(), detail: "open (through a benign source) and from_bytes return different libraries for the same bytes".into(), artefact: art(img) }), ok: true };
                }
            }
            (Ok(Err(_)), None) => {}
            (Ok(Ok(_)), None) | (Ok(Err(_)), Some(_)) => {
                return CaseOut { violation: Some(Violation { class: "not-transparent".into(), sig: "open-vs-from_bytes/result".into(), detail: "open (through a benign source) and from_bytes disagree on accept/reject for the same bytes".into(), artefact: art(img) }), ok: lib.is_some() };
            }
        }
    }
    CaseOut { violation: None, ok: lib.is_some() }
}

impl Check for C10 {
    fn id(&self) -> &'static str {
        "C10"
    }
    fn level(&self) -> &'static str {
        "fault_enumeration"
    }
    fn runs(&self, tier: Tier) -> u64 {
        match tier {
            Tier::Quick => 600,
            Tier::Thorough => 60_000,
        }
    }
    fn secs(&self, tier: Tier) -> u64 {
        match tier {
            Tier::Quick => 240,
            Tier::Thorough => 900,
        }
    }
    fn hang_secs(&self) -> u64 {
        10
    }
    fn shrinkable(&self) -> bool {
        false
    }
    fn rule(&self) -> String {
        "One run = one valid image (runs 0..2: the repository's non-empty .gds files; others: real-writer output of a G-gds library or an R-gds encoding, <= 64 KiB) and, on it: crash-truncation at EVERY byte offset (quick tier: every offset for images <= 2 KiB, 96 seeded offsets plus all record boundaries +-1 otherwise), EVERY single-record fault for every record (length field := 0/2/3/4/5/len-1/len-2/len+1/len+2/len+4/0xFFFE/0xFFFF, zero-length payload, payload filled with 0xFF/0x80/0xC3/0x00, record type := every number 0..0x3C and 0x3D/0x7F/0x80/0xFF (quick: 19 representative ones), data type := 0..7 and 0xFF, record deleted, duplicated, swapped with its neighbour, spliced from elsewhere in the image and from another image; quick tier on large images: a seeded 1/8 sample of records), plus seeded noise (1..32 byte overwrites, pure random strings, valid prefix + random tail); one scale run reads a 2-9 MB valid image (the sample struct repeated 100-400 times), three cuts of it and a bit flip, under the same step budget. Every case is read by from_bytes; 1 case in 4 (all cases of small images) also by open through a counting SimSource under a benign schedule. evaluations counts cases; non-trivial = damaged image differs from the valid one; distinct = distinct damaged-image digests.".into()
    }
    fn assumptions(&self) -> Vec<String> {
        vec![
            "most images are capped at 64 KiB (the reader pre-allocates ~190 KiB per struct), the scale images reach 9 MB; memory use is not part of the statement, but failing allocations are a fault kind: workers run under an 8 GiB address-space limit, so a reservation computed from a damaged count or length field aborts the worker and is reported as a crash (own patch m17)".into(),
            "time-proportionality is checked as a source-call/byte budget (calls <= 4*len + 3*faults + 64, bytes requested <= 2*len + 200000 when unchunked: read_exact asks for a full <=64 KiB payload and once more for its remainder at EOF) on the SimSource path and by the supervisor watchdog (10 s of child CPU time without progress) on the from_bytes path".into(),
            "stack overflow / abort are contained by running in a child process; such a death is attributed to the run, not to a sub-case".into(),
            "exhaustive over the listed fault kinds for the images explored, not over all byte strings".into(),
        ]
    }
    fn real_vs_stub(&self) -> Value {
        json!({"real": ["gds21 reader and writer"], "stub": ["stored image + damage layer", "SimSource/SimFs for the open path"], "harness_tokeniser": ["R-gds framing scanner (to address records)"]})
    }
    fn run(&self, inp: RunIn) -> RunOut {
        let mut wt = inp.wtape;
        let ft = inp.ftape;
        let io = new_io(ft, inp.want_sample);
        let mut out = RunOut::new();
        // artefact-based replay
        if let Some(h) = inp.extra.get("image_hex").and_then(|v| v.as_str()) {
            let img: Vec<u8> = (0..h.len() / 2).filter_map(|i| u8::from_str_radix(&h[2 * i..2 * i + 2], 16).ok()).collect();
            let t = inp.extra.get("truncated_at").and_then(|v| v.as_u64()).map(|x| x as usize);
            let e = inp.extra.get("valid_endlib_end").and_then(|v| v.as_u64()).map(|x| x as usize);
            let pol = Policy { chunk_max: inp.extra.get("chunk_max").and_then(|v| v.as_u64()).unwrap_or(0) as usize, ..Default::default() };
            let c = read_case(&img, e, t, Some((&io, pol)), "replay", &mut out.probes);
            out.violation = c.violation;
            out.digest = io.borrow().log.finish();
            return out;
        }
        // scale run: a multi-megabyte valid image (the repository's sample struct repeated) and a few faults on it
        if inp.index == CORPUS.len() as u64 {
            let base = gdsref::scan(CORPUS[0].1, false).unwrap_or_default();
            let first_struct = base.iter().position(|r| r.rt == gdsref::BGNSTR).unwrap_or(0);
            let last = base.len().saturating_sub(1);
            let mut big: Vec<u8> = Vec::new();
            for r in &base[..first_struct] {
                big.extend_from_slice(&rec_bytes(r));
            }
            let reps = if inp.tier == Tier::Thorough { 400 } else { 100 };
            for _ in 0..reps {
                for r in &base[first_struct..last] {
                    big.extend_from_slice(&rec_bytes(r));
                }
            }
            let endlib_at = big.len();
            big.extend_from_slice(&rec_bytes(&base[last]));
            let mut cases: Vec<(String, Vec<u8>, Option<usize>)> = vec![("scale:valid".into(), big.clone(), None)];
            for cut in [big.len() - 1, big.len() / 2, endlib_at] {
                cases.push((format!("scale:truncate@{}", cut), big[..cut].to_vec(), Some(cut)));
            }
            // one element with very many properties (a parser that recurses per property overflows its stack here)
            {
                let mut v: Vec<u8> = Vec::new();
                for r in &base[..first_struct] {
                    v.extend_from_slice(&rec_bytes(r));
                }
                let rec = |rt: u8, dt: u8, p: &[u8]| -> Vec<u8> {
                    let mut o = ((p.len() + 4) as u16).to_be_bytes().to_vec();
                    o.push(rt);
                    o.push(dt);
                    o.extend_from_slice(p);
                    o
                };
                v.extend(rec(gdsref::BGNSTR, 2, &[0u8; 24]));
                v.extend(rec(gdsref::STRNAME, 6, b"deep"));
                v.extend(rec(gdsref::BOUNDARY, 0, &[]));
                v.extend(rec(gdsref::LAYER, 2, &[0, 1]));
                v.extend(rec(gdsref::DATATYPE, 2, &[0, 0]));
                v.extend(rec(gdsref::XY, 3, &[0u8; 40]));
                let nprops = if inp.tier == Tier::Thorough { 400_000 } else { 200_000 };
                for i in 0..nprops {
                    v.extend(rec(gdsref::PROPATTR, 2, &((i % 100) as i16).to_be_bytes()));
                    v.extend(rec(gdsref::PROPVALUE, 6, b"pv"));
                }
                v.extend(rec(gdsref::ENDEL, 0, &[]));
                v.extend(rec(gdsref::ENDSTR, 0, &[]));
                v.extend(rec(gdsref::ENDLIB, 0, &[]));
                cases.push((format!("scale:one-element-{}-properties", nprops), v, None));
            }
            let mut d = big.clone();
            let mid = big.len() / 2;
            d[mid] ^= 0x40;
            cases.push(("scale:bitflip-in-the-middle".into(), d, None));
            for (label, bytes, trunc) in &cases {
                let full = format!("scale({} bytes) / {}", bytes.len(), label);
                let c = read_case(bytes, trunc.map(|_| endlib_at + 4), *trunc, Some((&io, Policy::plain())), &full, &mut out.probes);
                if let Some(v) = c.violation {
                    if out.violation.is_none() {
                        out.violation = Some(v);
                        out.replay_extra = json!({"damage": full, "note": "scale image: rebuild with `check C10 --runs 4`"});
                    }
                }
                out.probes.hit("case_scale");
                out.probes.add("scale_bytes_read", bytes.len() as u64);
                out.more_keys.push(fnv64(bytes));
            }
            out.evals = cases.len() as u64;
            if inp.want_sample {
                out.sample = Some(json!({"image": "scale run", "image_len": big.len(), "structs": reps, "cases": cases.iter().map(|c| c.0.clone()).collect::<Vec<_>>()}));
            }
            out.digest = fnv64(format!("{}{}", big.len(), out.violation.is_some()).as_bytes());
            out.stats = io.borrow().stats.clone();
            out.steps = io.borrow().steps;
            out.sim_ns = io.borrow().sim_ns;
            return out;
        }
        let (name, img) = image_for(inp.index, &mut wt);
        let recs = match gdsref::scan(&img, false) {
            Ok(r) => r,
            Err(e) => {
                out.violation = Some(Violation { class: "harness-panic".into(), sig: "harness:valid-image-does-not-scan".into(), detail: format!("{}: {}", name, e), artefact: Value::Null });
                return out;
            }
        };
        let endlib_end = recs.last().map(|r| r.at + 4).unwrap_or(0);
        // sanity: the valid image must be accepted (otherwise O3 is vacuous for it) — invalid_dates is valid GDSII too
        let small = img.len() <= 2048;
        let thorough = inp.tier == Tier::Thorough;
        let mut cases: Vec<(Damage, String)> = Vec::new();
        // truncations
        if small || thorough {
            for t in 0..=img.len() {
                cases.push((Damage::Truncate(t), format!("truncate@{}", t)));
            }
        } else {
            for r in &recs {
                for d in [0i64, -1, 1, 2, 3, 4, 5] {
                    let t = r.at as i64 + d;
                    if t >= 0 && (t as usize) <= img.len() {
                        cases.push((Damage::Truncate(t as usize), format!("truncate@{}", t)));
                    }
                }
            }
            for _ in 0..96 {
                let t = wt.draw(img.len() as u64 + 1) as usize;
                cases.push((Damage::Truncate(t), format!("truncate@{}", t)));
            }
        }
        // a stream cut at a record boundary and padded with NUL bytes (tape / block padding after a lost tail)
        for (ri, r) in recs.iter().enumerate() {
            if ri == 0 || (!(small || thorough) && recs.len() > 64 && ri % 16 != 0) {
                continue;
            }
            for n in [2usize, 4, 6, 8, 2048 - (r.at % 2048)] {
                cases.push((Damage::PrefixPlusRandom(r.at, vec![0u8; n]), format!("cut-before-record#{}+{}-NUL-bytes", ri, n)));
            }
        }
        // foreign records for splicing: from the first corpus image and a generated one
        let mut foreign: Vec<Vec<u8>> = Vec::new();
        if let Ok(fr) = gdsref::scan(CORPUS[0].1, false) {
            for k in [3usize, 10, 17, 40, 41, 42] {
                if k < fr.len() {
                    foreign.push(rec_bytes(&fr[k]));
                }
            }
        }
        for (ri, _r) in recs.iter().enumerate() {
            if !(small || thorough) && recs.len() > 64 && wt.draw(8) != 0 {
                continue;
            }
            for d in record_faults(&recs, ri, &foreign, thorough) {
                let l = format!("record#{}({}):{:?}", ri, gdsref::rec_name(recs[ri].rt), match &d {
                    Damage::Foreign(r, _) => Damage::Foreign(*r, vec![]),
                    x => x.clone(),
                });
                cases.push((d, l));
            }
        }
        // noise
        let nnoise = if thorough { 256 } else { 48 };
        for _ in 0..nnoise {
            match wt.draw(4) {
                0 | 1 => {
                    let k = wt.range(1, 32);
                    let edits: Vec<(usize, u8)> = (0..k).map(|_| (wt.draw(img.len() as u64) as usize, wt.bits() as u8)).collect();
                    cases.push((Damage::Noise(edits), "noise".into()));
                }
                2 => {
                    let n = wt.draw(200);
                    let b: Vec<u8> = (0..n).map(|_| wt.bits() as u8).collect();
                    cases.push((Damage::Random(b), "random".into()));
                }
                _ => {
                    let t = wt.draw(img.len() as u64 + 1) as usize;
                    let n = wt.draw(64);
                    let b: Vec<u8> = (0..n).map(|_| wt.bits() as u8).collect();
                    cases.push((Damage::PrefixPlusRandom(t, b), format!("prefix@{}+random", t)));
                }
            }
        }
        let valid_digest = fnv64(&img);
        let mut log = Digest::new();
        let mut seen_sigs: Vec<String> = Vec::new();
        let ncases = cases.len() as u64;
        let mut accepted = 0u64;
        for (ci, (d, label)) in cases.iter().enumerate() {
            let dimg = apply(&img, &recs, d);
            if dimg.len() > MAX_IMAGE + 70_000 {
                continue;
            }
            let trunc = if let Damage::Truncate(t) = d { Some(*t) } else { None };
            let via = if small || ci % 4 == 0 {
                let cm = [0usize, 1, 2, 3, 7][ci % 5];
                Some((&io, Policy { chunk_max: cm, ..Default::default() }))
            } else {
                None
            };
            let chunk = via.as_ref().map(|v| v.1.chunk_max).unwrap_or(0);
            let full_label = format!("{} / {}", name, label);
            let c = read_case(&dimg, if trunc.is_some() { Some(endlib_end) } else { None }, trunc, via, &full_label, &mut out.probes);
            let dd = fnv64(&dimg);
            log.u64(dd);
            log.u64(c.ok as u64);
            if c.ok {
                accepted += 1;
            }
            if dd != valid_digest {
                out.more_keys.push(dd);
            }
            match d {
                Damage::Truncate(_) => out.probes.hit("case_truncation"),
                Damage::Len(..) | Damage::EmptyPayload(_) => out.probes.hit("case_length_field"),
                Damage::FillPayload(..) => out.probes.hit("case_payload_filled"),
                Damage::PadByte(..) => out.probes.hit("case_odd_length_record_with_extra_byte"),
                Damage::GrowPayload(..) => out.probes.hit("case_string_record_grown_to_kilobytes_of_non_utf8"),
                Damage::Rtype(..) => out.probes.hit("case_record_type"),
                Damage::Dtype(..) => out.probes.hit("case_data_type"),
                Damage::Delete(_) => out.probes.hit("case_record_deleted"),
                Damage::Duplicate(_) => out.probes.hit("case_record_duplicated"),
                Damage::Swap(_) => out.probes.hit("case_records_swapped"),
                Damage::Splice(..) | Damage::Foreign(..) => out.probes.hit("case_record_spliced"),
                _ => out.probes.hit("case_noise"),
            }
            if let Some(v) = c.violation {
                let key = format!("{}|{}", v.class, v.sig);
                if !seen_sigs.contains(&key) {
                    seen_sigs.push(key);
                    let extra = json!({"image_hex": dimg.iter().map(|b| format!("{:02x}", b)).collect::<String>(), "truncated_at": trunc, "valid_endlib_end": if trunc.is_some() { Some(endlib_end) } else { None }, "chunk_max": chunk, "damage": full_label});
                    if out.violation.is_none() {
                        out.violation = Some(v);
                        out.replay_extra = extra;
                    } else {
                        out.also.push((v, extra));
                    }
                }
            }
        }
        out.probes.add("damaged_images_accepted", accepted);
        out.evals = ncases.max(1);
        if inp.want_sample {
            out.sample = Some(json!({"image": name, "image_len": img.len(), "records": recs.len(), "cases": ncases, "accepted": accepted, "example_cases": cases.iter().step_by((cases.len() / 12).max(1)).map(|c| c.1.clone()).take(12).collect::<Vec<_>>()}));
        }
        let r = io.borrow();
        log.u64(r.log.finish());
        out.digest = log.finish();
        out.stats = r.stats.clone();
        out.steps = r.steps;
        out.sim_ns = r.sim_ns;
        out.wtape = wt.used();
        out.key = valid_digest;
        out.nontrivial = false;
        let _ = Rc::strong_count(&io);
        out
    }
}
