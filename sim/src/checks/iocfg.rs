//! Drawing I/O policies (benign schedules, terminal fault plans) from the fault tape.

use crate::rng::Tape;
use crate::simio::{Policy, Term, TermKind};

/// Configuration of a run (DESIGN §2.5): kept apart and reported separately
#[derive(Clone, Copy, Debug, PartialEq, Eq)]
pub enum Cfg {
    FaultFree,
    Benign,
    Terminal,
}
impl Cfg {
    pub fn draw(ft: &mut Tape) -> Cfg {
        match ft.draw(3) {
            0 => Cfg::FaultFree,
            1 => Cfg::Benign,
            _ => Cfg::Terminal,
        }
    }
    pub fn name(self) -> &'static str {
        match self {
            Cfg::FaultFree => "fault-free",
            Cfg::Benign => "benign",
            Cfg::Terminal => "terminal",
        }
    }
}

/// A benign schedule: short transfers, EINTR bursts, odd chunkings
pub fn benign(ft: &mut Tape) -> Policy {
    let mut p = Policy::plain();
    p.short_pm = *ft.pick(&[0u32, 50, 300, 900]);
    p.eintr_pm = *ft.pick(&[0u32, 30, 200]);
    p.chunk_max = *ft.pick(&[0usize, 0, 1, 2, 3, 7, 4096]);
    if p.short_pm == 0 && p.eintr_pm == 0 && p.chunk_max == 0 {
        p.chunk_max = 1 + ft.draw(5) as usize;
    }
    p
}
/// BufWriter capacity knob
pub fn bufcap(ft: &mut Tape) -> Option<usize> {
    *ft.pick(&[None, None, Some(1usize), Some(2), Some(3), Some(7), Some(16), Some(64), Some(1000), Some(8192), Some(65536)])
}

/// Offsets biased into places where in-flight state exists: the first record,
/// the last buffer-full (<= 8 KiB), a BufWriter boundary, or anywhere.
pub fn fault_offset(ft: &mut Tape, len: u64) -> u64 {
    if len == 0 {
        return 0;
    }
    match ft.draw(5) {
        0 => ft.draw(len.min(32)),
        1 => len - 1 - ft.draw(len.min(8192)),
        2 => {
            let k = 8192 * (1 + ft.draw(1 + len / 8192));
            (k.min(len) - 1).min(len - 1)
        }
        3 => len - 1,
        _ => ft.draw(len),
    }
}

/// 1–2 terminal write faults (plus, sometimes, a benign background schedule)
pub fn terminal_write(ft: &mut Tape, len: u64) -> (Policy, &'static str) {
    let mut p = if ft.chance(1, 3) { benign(ft) } else { Policy::plain() };
    let kind = ft.draw(7);
    let label;
    match kind {
        4 => {
            p.terms.push(Term { at: fault_offset(ft, len), kind: TermKind::Eagain, sticky: ft.chance(1, 2) });
            label = "EAGAIN";
        }
        5 => {
            p.terms.push(Term { at: fault_offset(ft, len), kind: TermKind::Zero, sticky: true });
            label = "write-zero";
        }
        6 => {
            p.terms.push(Term { at: fault_offset(ft, len), kind: TermKind::Timedout, sticky: ft.chance(1, 2) });
            label = "ETIMEDOUT";
        }
        0 => {
            p.terms.push(Term { at: fault_offset(ft, len), kind: TermKind::Eio, sticky: false });
            label = "EIO-once";
        }
        1 => {
            p.terms.push(Term { at: fault_offset(ft, len), kind: TermKind::Eio, sticky: true });
            label = "EIO-sticky";
        }
        2 => {
            p.terms.push(Term { at: fault_offset(ft, len), kind: TermKind::Enospc, sticky: true });
            label = "ENOSPC";
        }
        _ => {
            p.flush_fail = Some(0);
            label = "flush-EIO";
        }
    }
    if ft.chance(1, 5) {
        p.terms.push(Term { at: fault_offset(ft, len), kind: TermKind::Eio, sticky: false });
    }
    (p, label)
}
/// One terminal read fault at an offset inside the image
/// `allow_early_eof`: only for formats whose reader can tell a cut file from a whole one (GDSII needs ENDLIB);
/// a prefix of a YAML or LEF 5.6+ file is itself a valid file, so early end-of-file is not a fault *they* can report
pub fn terminal_read(ft: &mut Tape, len: u64, allow_early_eof: bool) -> Policy {
    let mut p = if ft.chance(1, 3) { benign(ft) } else { Policy::plain() };
    if allow_early_eof && ft.chance(1, 4) && len > 0 {
        // the file shrank while being read: end-of-file arrives early although the size said otherwise
        p.eof_at = Some(fault_offset(ft, len));
    } else {
        let kind = *ft.pick(&[TermKind::Eio, TermKind::Eio, TermKind::Eagain, TermKind::Timedout]);
        p.terms.push(Term { at: fault_offset(ft, len), kind, sticky: ft.chance(1, 2) });
    }
    p
}
/// A consumed (by-value) sink with a write-back cache whose first flush calls are interrupted
pub fn writeback_sink(ft: &mut Tape) -> Policy {
    let mut p = if ft.chance(1, 2) { benign(ft) } else { Policy::plain() };
    p.writeback = true;
    // 0..2 mostly; sometimes more than any plausible bounded retry loop would absorb
    p.flush_eintr = *ft.pick(&[0u32, 1, 1, 2, 2, 3, 4, 7, 40]);
    p
}
pub fn policy_digest(p: &Policy) -> u64 {
    let mut d = crate::rng::Digest::new();
    d.u64(p.short_pm as u64);
    d.u64(p.eintr_pm as u64);
    d.u64(p.chunk_max as u64);
    for t in &p.terms {
        d.u64(t.at);
        d.u64(t.kind as u64);
        d.u64(t.sticky as u64);
    }
    d.u64(p.flush_fail.map(|x| x as u64 + 1).unwrap_or(0));
    d.u64(p.not_seekable as u64);
    d.u64(p.writeback as u64);
    d.u64(p.flush_eintr as u64);
    d.u64(p.eof_at.map(|x| x + 1).unwrap_or(0));
    d.finish()
}
