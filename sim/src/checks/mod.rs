pub mod gdscommon;
pub mod iocfg;
pub mod c01;

use crate::engine::Check;

pub fn all() -> Vec<Box<dyn Check>> {
    vec![Box::new(c01::C01)]
}
pub fn by_id(id: &str) -> Option<Box<dyn Check>> {
    all().into_iter().find(|c| c.id() == id)
}
