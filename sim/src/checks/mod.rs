pub mod c01;
pub mod c02;
pub mod c03;
pub mod c05;
pub mod c10;
pub mod c11;
pub mod c18;
pub mod c20;
pub mod gdscommon;
pub mod iocfg;

use crate::engine::{Check, RunOut};
use crate::rng::{Digest, Tape};
use crate::simio::Io;

pub fn all() -> Vec<Box<dyn Check>> {
    vec![Box::new(c01::C01), Box::new(c02::C02), Box::new(c03::C03), Box::new(c05::C05), Box::new(c10::C10), Box::new(c11::C11), Box::new(c18::C18), Box::new(c20::C20)]
}
pub fn by_id(id: &str) -> Option<Box<dyn Check>> {
    all().into_iter().find(|c| c.id() == id)
}

/// Fill the bookkeeping fields of a run result from the run's I/O context
pub fn finish(mut out: RunOut, io: &Io, wt: &Tape, struct_digest: u64, cfg: iocfg::Cfg, extra: u64, nonempty: bool) -> RunOut {
    let r = io.borrow();
    if let Some(ps) = r.path_style {
        out.probes.hit(&format!("path_args:{}", ps));
    }
    out.digest = r.log.finish();
    out.stats = r.stats.clone();
    out.steps = r.steps;
    out.sim_ns = r.sim_ns;
    out.wtape = wt.used();
    out.ftape = r.ftape.used();
    let mut d = Digest::new();
    d.u64(struct_digest);
    let mut f = Digest::new();
    f.u64(cfg as u64);
    f.u64(extra);
    for c in r.stats.c.iter().skip(7) {
        f.u64(*c);
    }
    d.u64(f.finish());
    out.key = d.finish();
    out.nontrivial = nonempty && (cfg == iocfg::Cfg::FaultFree || r.stats.faults_fired() > 0);
    out
}
