//! Generator of neutral-model libraries (R-gds) for C03/C10: what a foreign,
//! spec-conformant GDSII writer could produce.

use crate::gdsref::*;
use crate::gen_gds::{gen_i16, gen_i32, gen_real};
use crate::rng::Tape;

pub struct NSwarm {
    pub kinds: [bool; 7],
    pub opt_pm: u64,
    pub max_structs: u64,
    pub max_elems: u64,
    pub max_props: u64,
    pub utf8: bool,
    pub hard_reals: bool,
    pub full: bool,
    /// near-limit records (strings of 32 KiB..65530 bytes, XY lists of 4095..8191 points)
    pub big: bool,
}
impl NSwarm {
    pub fn draw(t: &mut Tape) -> Self {
        let mut kinds = [false; 7];
        let all = t.chance(1, 3);
        for k in kinds.iter_mut() {
            *k = all || t.chance(1, 2);
        }
        if !kinds.iter().any(|k| *k) {
            kinds[t.draw(7) as usize] = true;
        }
        NSwarm { kinds, opt_pm: *t.pick(&[0, 200, 500, 800, 1000]), max_structs: *t.pick(&[0, 1, 2, 3, 5]), max_elems: *t.pick(&[0, 1, 2, 4, 8]), max_props: *t.pick(&[0, 0, 1, 2, 6]), utf8: t.chance(1, 4), hard_reals: t.chance(2, 3), full: t.chance(1, 2), big: t.chance(1, 30) }
    }
}
pub fn gen_bytes_string(t: &mut Tape, sw: &NSwarm) -> Vec<u8> {
    let cat = t.draw(20);
    if sw.big && t.chance(1, 6) {
        // records whose 16-bit length has its top bit set, up to the longest possible payload (65530)
        let len = *t.pick(&[32762usize, 32763, 32764, 40001, 65529, 65530]);
        let mut v = vec![b'k'; len];
        v[0] = b'A' + t.draw(26) as u8;
        return v;
    }
    if sw.utf8 && t.chance(1, 25) {
        // kilobytes of multi-byte text with a varying phase, so that 512-byte .. 16 KiB buffer boundaries fall inside
        // characters of a single string record
        let pad = t.draw(4);
        let n = t.range(300, 6000);
        let mut s = String::new();
        for _ in 0..pad {
            s.push('p');
        }
        for i in 0..n {
            s.push(['é', '日', '😀', 'ß', '本', '€'][((i + pad) % 6) as usize]);
        }
        return s.into_bytes();
    }
    let len = match cat {
        0 | 1 => 0,
        2 | 3 => 1,
        4..=15 => t.range(2, 12),
        16..=18 => t.range(13, 90),
        _ => t.range(91, 400),
    };
    let mut s = String::new();
    while (s.len() as u64) < len {
        let c = if sw.utf8 && t.chance(1, 6) { *t.pick(&['é', 'π', '日', '😀']) } else { (0x21 + t.draw(0x5e) as u8) as char };
        if s.len() + c.len_utf8() > len as usize {
            s.push('_');
        } else {
            s.push(c);
        }
    }
    s.into_bytes()
}
fn real(t: &mut Tape, sw: &NSwarm) -> u64 {
    gen_real(t, sw.hard_reals).to_bits()
}
fn dates(t: &mut Tape) -> [i16; 12] {
    let mut d = [0i16; 12];
    for x in d.iter_mut() {
        *x = gen_i16(t);
    }
    d
}
fn pts(t: &mut Tape, sw: &NSwarm, lo: u64, hi: u64) -> Vec<i32> {
    if sw.big && hi > 5 && t.chance(1, 4) {
        let n = *t.pick(&[4095u64, 4096, 6000, 8191]);
        let x = gen_i32(t, sw.full);
        return (0..2 * n).map(|i| x.wrapping_add(i as i32)).collect();
    }
    let n = t.range(lo, hi);
    (0..2 * n).map(|_| gen_i32(t, sw.full)).collect()
}
fn strans(t: &mut Tape, sw: &NSwarm) -> Option<NStrans> {
    if !t.chance(sw.opt_pm, 1000) {
        return None;
    }
    let mut flags = 0u16;
    if t.chance(1, 2) {
        flags |= 0x8000;
    }
    if t.chance(1, 3) {
        flags |= 0x0004;
    }
    if t.chance(1, 3) {
        flags |= 0x0002;
    }
    Some(NStrans { flags, mag: if t.chance(1, 2) { Some(real(t, sw)) } else { None }, angle: if t.chance(1, 2) { Some(real(t, sw)) } else { None } })
}
pub fn gen_nelem(t: &mut Tape, sw: &NSwarm, names: &[Vec<u8>]) -> NElem {
    let enabled: Vec<usize> = (0..7).filter(|i| sw.kinds[*i]).collect();
    let k = *t.pick(&enabled);
    let kind = [NKind::Boundary, NKind::Path, NKind::Sref, NKind::Aref, NKind::Text, NKind::Node, NKind::Box][k];
    let mut e = NElem::new(kind);
    let opt = |t: &mut Tape| t.chance(sw.opt_pm, 1000);
    if opt(t) {
        e.elflags = Some(t.bits() as u16);
    }
    if opt(t) {
        e.plex = Some(gen_i32(t, true));
    }
    let refname = |t: &mut Tape| if !names.is_empty() && t.chance(3, 4) { t.pick(names).clone() } else { gen_bytes_string(t, sw) };
    match kind {
        NKind::Boundary => {
            e.layer = Some(gen_i16(t));
            e.xtype = Some(gen_i16(t));
            e.xy = pts(t, sw, 4, 12);
        }
        NKind::Path => {
            e.layer = Some(gen_i16(t));
            e.xtype = Some(gen_i16(t));
            if opt(t) {
                e.pathtype = Some(gen_i16(t));
            }
            if opt(t) {
                e.width = Some(gen_i32(t, true));
            }
            if opt(t) {
                e.bgnextn = Some(gen_i32(t, true));
            }
            if opt(t) {
                e.endextn = Some(gen_i32(t, true));
            }
            e.xy = pts(t, sw, 2, 12);
        }
        NKind::Sref => {
            e.sname = Some(refname(t));
            e.strans = strans(t, sw);
            e.xy = pts(t, sw, 1, 1);
        }
        NKind::Aref => {
            e.sname = Some(refname(t));
            e.strans = strans(t, sw);
            e.colrow = Some((gen_i16(t), gen_i16(t)));
            e.xy = pts(t, sw, 3, 3);
        }
        NKind::Text => {
            e.layer = Some(gen_i16(t));
            e.xtype = Some(gen_i16(t));
            if opt(t) {
                e.presentation = Some(t.bits() as u16);
            }
            if opt(t) {
                e.pathtype = Some(gen_i16(t));
            }
            if opt(t) {
                e.width = Some(gen_i32(t, true));
            }
            e.strans = strans(t, sw);
            e.xy = pts(t, sw, 1, 1);
            e.string = Some(gen_bytes_string(t, sw));
        }
        NKind::Node => {
            e.layer = Some(gen_i16(t));
            e.xtype = Some(gen_i16(t));
            e.xy = pts(t, sw, 1, 12);
        }
        NKind::Box => {
            e.layer = Some(gen_i16(t));
            e.xtype = Some(gen_i16(t));
            e.xy = pts(t, sw, 5, 5);
        }
    }
    let np = t.draw(sw.max_props + 1);
    for _ in 0..np {
        e.props.push((gen_i16(t), gen_bytes_string(t, sw)));
    }
    e
}
pub fn gen_nlib(t: &mut Tape) -> (NLib, NSwarm) {
    let sw = NSwarm::draw(t);
    let ns = t.draw(sw.max_structs + 1);
    let mut names: Vec<Vec<u8>> = Vec::new();
    for _ in 0..ns {
        // one name in 10 repeats an earlier one (two structures of one name are grammar-conformant)
        if !names.is_empty() && t.chance(1, 10) {
            let again = t.pick(&names).clone();
            names.push(again);
        } else {
            names.push(gen_bytes_string(t, &sw));
        }
    }
    let mut structs = Vec::new();
    for i in 0..ns as usize {
        let d = dates(t);
        let ne = t.draw(sw.max_elems + 1);
        let mut elems: Vec<NElem> = Vec::new();
        for _ in 0..ne {
            let e = gen_nelem(t, &sw, &names);
            // one element in 10 is followed by an identical twin
            let twin = t.chance(1, 10);
            if twin {
                elems.push(e.clone());
            }
            elems.push(e);
        }
        // one struct in 60: an element with many small properties (hundreds of bytes to kilobytes in total), and
        // hundreds of elements (repeats of the drawn ones)
        if !elems.is_empty() && t.chance(1, 60) {
            let np = *t.pick(&[29usize, 64, 127, 128, 255, 256, 300]);
            elems[0].props = (0..np).map(|j| ((j % 400) as i16, format!("value_number_{:04}", j).into_bytes())).collect();
            // (hundreds of elements are expensive under byte-sized I/O schedules: one such struct in eight of these)
            let target = if t.chance(1, 8) { *t.pick(&[255usize, 256, 1000]) } else { 0 };
            let base = elems.clone();
            let mut k = 1usize;
            while elems.len() < target {
                elems.push(base[k % base.len()].clone());
                k += 1;
            }
        }
        structs.push(NStruct { dates: d, name: names[i].clone(), elems });
    }
    let lib = NLib { version: gen_i16(t), dates: dates(t), name: gen_bytes_string(t, &sw), units: (real(t, &sw), real(t, &sw)), structs, extras: vec![] };
    (lib, sw)
}
/// One documented-unsupported library-level record
pub fn gen_extra(t: &mut Tape, sw: &NSwarm) -> NExtra {
    match t.draw(10) {
        8 | 9 => NExtra::FormatFiltered(1 + t.draw(2) as i16, (0..t.range(1, 3)).map(|_| gen_bytes_string(t, sw)).collect()),
        0 => NExtra::LibDirSize(gen_i16(t)),
        1 => NExtra::SrfName(gen_bytes_string(t, sw)),
        2 => NExtra::LibSecur(gen_i16(t)),
        3 => NExtra::RefLibs(gen_bytes_string(t, sw)),
        4 => NExtra::Fonts(gen_bytes_string(t, sw)),
        5 => NExtra::AttrTable(gen_bytes_string(t, sw)),
        6 => NExtra::Generations(gen_i16(t)),
        _ => NExtra::Format(gen_i16(t)),
    }
}
pub fn describe_n(l: &NLib) -> String {
    let mut k = [0usize; 7];
    let mut props = 0;
    let mut opts = 0;
    let mut sb = l.name.len();
    for s in &l.structs {
        sb += s.name.len();
        for e in &s.elems {
            k[e.kind as usize] += 1;
            props += e.props.len();
            opts += e.elflags.is_some() as usize + e.plex.is_some() as usize + e.pathtype.is_some() as usize + e.width.is_some() as usize + e.bgnextn.is_some() as usize + e.endextn.is_some() as usize + e.presentation.is_some() as usize + e.strans.is_some() as usize;
            sb += e.string.as_ref().map(|s| s.len()).unwrap_or(0);
        }
    }
    format!("structs={} kinds={:?} props={} opts={} strbytes={} extras={}", l.structs.len(), k, props, opts, sb, l.extras.len())
}
