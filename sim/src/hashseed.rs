//! Hash-seed seam. `std` obtains the SipHash keys of `RandomState` through the
//! weak libc symbol `getrandom`; defining it here makes the keys a function of
//! a seed the simulator owns. `std` caches the keys per thread, so every run
//! that needs its own hash seed executes on a fresh thread (`with_hash_seed`).

use std::sync::atomic::{AtomicU64, Ordering};

static SEED: AtomicU64 = AtomicU64::new(0x5EED_5EED_5EED_5EED);
static CALLS: AtomicU64 = AtomicU64::new(0);
thread_local! {
    static THREAD_SEED: std::cell::Cell<Option<(u64, u64)>> = std::cell::Cell::new(None);
}

#[cfg(not(miri))]
#[no_mangle]
pub unsafe extern "C" fn getrandom(buf: *mut u8, len: usize, _flags: u32) -> isize {
    CALLS.fetch_add(1, Ordering::Relaxed);
    // per-thread stream if one is installed, else the process-wide seed
    let (seed, ctr) = THREAD_SEED.try_with(|c| c.get()).ok().flatten().unwrap_or((SEED.load(Ordering::Relaxed), 0));
    let mut x = seed ^ ctr.wrapping_mul(0x9E37_79B9_7F4A_7C15);
    let mut i = 0;
    while i < len {
        let v = crate::rng::splitmix64(&mut x).to_le_bytes();
        let n = (len - i).min(8);
        std::ptr::copy_nonoverlapping(v.as_ptr(), buf.add(i), n);
        i += n;
    }
    let _ = THREAD_SEED.try_with(|c| {
        if let Some((s, k)) = c.get() {
            c.set(Some((s, k + 1)));
        }
    });
    len as isize
}

pub fn calls() -> u64 {
    CALLS.load(Ordering::Relaxed)
}
pub fn set_process_seed(s: u64) {
    SEED.store(s, Ordering::Relaxed);
}

/// Run `f` on a fresh thread whose `RandomState` keys derive from `seed`
pub fn with_hash_seed<T: Send + 'static>(seed: u64, f: impl FnOnce() -> T + Send + 'static) -> std::thread::Result<T> {
    let env = crate::envsim::current();
    std::thread::Builder::new()
        .stack_size(8 << 20)
        .spawn(move || {
            THREAD_SEED.with(|c| c.set(Some((seed, 0))));
            if env != 0 {
                crate::envsim::begin(env);
            }
            f()
        })
        .expect("spawn")
        .join()
}

/// The iteration order of a small HashMap under this thread's keys (to show the seam is live)
pub fn order_probe() -> Vec<u32> {
    let mut m = std::collections::HashMap::new();
    for i in 0..8u32 {
        m.insert(i, ());
    }
    m.keys().copied().collect()
}
