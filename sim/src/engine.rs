//! Run engine: check trait, worker loop (child process), supervisor (containment,
//! watchdog, merge, evidence, known findings), replay and shrinking.

use crate::rng::{run_seed, Digest, Tape};
use crate::simio::{IoStats, K, K_NAMES};
use serde_json::{json, Value};
use std::cell::RefCell;
use std::collections::{BTreeMap, HashSet};
use std::io::Write;
use std::os::unix::fs::FileExt;
use std::panic::{catch_unwind, AssertUnwindSafe};
use std::path::PathBuf;
use std::time::{Duration, Instant};

pub const DEFAULT_SEED: u64 = 20261003;

#[derive(Clone, Copy, Debug, PartialEq, Eq)]
pub enum Tier {
    Quick,
    Thorough,
}
impl Tier {
    pub fn name(self) -> &'static str {
        match self {
            Tier::Quick => "quick",
            Tier::Thorough => "thorough",
        }
    }
}

#[derive(Clone, Debug)]
pub struct Violation {
    /// panic | mismatch | ack-not-durable | not-transparent | hang | abort | nondeterminism | accepted-truncated | ...
    pub class: String,
    /// identifies the failing call site / field (DESIGN §6)
    pub sig: String,
    pub detail: String,
    pub artefact: Value,
}

/// Probe / counter bag with deterministic order
#[derive(Clone, Debug, Default)]
pub struct Probes(pub BTreeMap<String, u64>);
impl Probes {
    pub fn hit(&mut self, k: &str) {
        *self.0.entry(k.to_string()).or_insert(0) += 1;
    }
    pub fn add(&mut self, k: &str, n: u64) {
        *self.0.entry(k.to_string()).or_insert(0) += n;
    }
    pub fn merge(&mut self, o: &Probes) {
        for (k, v) in &o.0 {
            *self.0.entry(k.clone()).or_insert(0) += v;
        }
    }
}

pub struct RunOut {
    pub digest: u64,
    pub violation: Option<Violation>,
    /// key of (workload structure, fault plan) — counted as distinct when `nontrivial`
    pub key: u64,
    pub nontrivial: bool,
    pub stats: IoStats,
    pub probes: Probes,
    pub steps: u64,
    pub sim_ns: u64,
    pub wtape: Vec<u64>,
    pub ftape: Vec<u64>,
    pub sample: Option<Value>,
    /// extra replay fields (for artefact-based replays)
    pub replay_extra: Value,
    /// number of cases this run evaluated (enumerating runs evaluate many)
    pub evals: u64,
    /// keys of further distinct non-trivial cases of an enumerating run
    pub more_keys: Vec<u64>,
    /// further violations (other signatures) found by an enumerating run: (violation, replay extra)
    pub also: Vec<(Violation, Value)>,
}
impl RunOut {
    pub fn new() -> Self {
        RunOut { digest: 0, violation: None, key: 0, nontrivial: false, stats: IoStats::default(), probes: Probes::default(), steps: 0, sim_ns: 0, wtape: vec![], ftape: vec![], sample: None, replay_extra: Value::Null, evals: 1, more_keys: vec![], also: vec![] }
    }
}

pub struct RunIn {
    pub index: u64,
    pub seed: u64,
    pub wtape: Tape,
    pub ftape: Tape,
    pub want_sample: bool,
    pub tier: Tier,
    /// artefact-based replay input
    pub extra: Value,
}

pub trait Check: Sync {
    fn id(&self) -> &'static str;
    fn level(&self) -> &'static str;
    fn runs(&self, tier: Tier) -> u64;
    /// wall-clock budget for the thorough tier (the run count is an upper bound)
    fn secs(&self, tier: Tier) -> u64 {
        match tier {
            Tier::Quick => 240,
            Tier::Thorough => 600,
        }
    }
    /// seconds a single run may take before the watchdog declares a hang
    fn hang_secs(&self) -> u64 {
        30
    }
    fn rule(&self) -> String;
    fn assumptions(&self) -> Vec<String>;
    fn real_vs_stub(&self) -> Value;
    fn run(&self, inp: RunIn) -> RunOut;
    /// whether tape shrinking makes sense for this check
    fn shrinkable(&self) -> bool {
        true
    }
    /// hook for extra, check-specific evidence assembled in the supervisor
    fn extra_evidence(&self, _tier: Tier) -> Value {
        Value::Null
    }
}

// ------------------------------------------------------------------ panic capture
thread_local! {
    static LAST_PANIC: RefCell<Option<(String, String)>> = RefCell::new(None);
}
pub fn install_panic_hook() {
    std::panic::set_hook(Box::new(|info| {
        let loc = info.location().map(|l| format!("{}:{}", l.file(), l.line())).unwrap_or_else(|| "?".into());
        let msg = if let Some(s) = info.payload().downcast_ref::<&str>() {
            s.to_string()
        } else if let Some(s) = info.payload().downcast_ref::<String>() {
            s.clone()
        } else {
            "?".into()
        };
        LAST_PANIC.with(|p| *p.borrow_mut() = Some((loc, msg)));
    }));
}
/// (location, message) of a caught panic. Location has the `/repo/` prefix stripped.
#[derive(Clone, Debug)]
pub struct PanicInfo {
    pub loc: String,
    pub msg: String,
}
/// Run `f`, catching a panic of the code under test
pub fn guard<T>(f: impl FnOnce() -> T) -> Result<T, PanicInfo> {
    LAST_PANIC.with(|p| *p.borrow_mut() = None);
    match catch_unwind(AssertUnwindSafe(f)) {
        Ok(v) => Ok(v),
        Err(_) => {
            let (loc, msg) = LAST_PANIC.with(|p| p.borrow_mut().take()).unwrap_or(("?".into(), "?".into()));
            let loc = loc.strip_prefix("/repo/").unwrap_or(&loc).to_string();
            // dependencies: keep `crate-version/src/file.rs:line`, drop the registry directory
            let loc = match loc.find("/registry/src/") {
                Some(i) => loc[i + 14..].splitn(2, '/').nth(1).unwrap_or(&loc).to_string(),
                None => loc,
            };
            Err(PanicInfo { loc, msg })
        }
    }
}
pub fn panic_violation(op: &str, p: &PanicInfo, artefact: Value) -> Violation {
    // library code → signature is the file:line; harness code → harness error (exit 2)
    Violation { class: "panic".into(), sig: format!("panic@{}", p.loc), detail: format!("{} panicked at {}: {}", op, p.loc, truncate(&p.msg, 300)), artefact }
}
pub fn truncate(s: &str, n: usize) -> String {
    if s.len() <= n {
        s.to_string()
    } else {
        let mut e = n;
        while !s.is_char_boundary(e) {
            e -= 1;
        }
        format!("{}…", &s[..e])
    }
}

// ------------------------------------------------------------------ one run, with optional shrinking
pub fn exec(check: &dyn Check, index: u64, master: u64, tier: Tier, want_sample: bool, wt: Option<Vec<u64>>, ft: Option<Vec<u64>>, extra: Value) -> RunOut {
    let seed = run_seed(master, check.id(), index);
    let wtape = match wt {
        Some(v) => Tape::replay(v),
        None => Tape::record(seed),
    };
    let ftape = match ft {
        Some(v) => Tape::replay(v),
        None => Tape::record(seed ^ 0xFA17_FA17_FA17_FA17),
    };
    // the process environment is part of the run: variables the code under test can ask for are answered from the run seed
    crate::envsim::begin(seed);
    let env0 = crate::envsim::simulated_reads();
    let out = guard(|| check.run(RunIn { index, seed, wtape, ftape, want_sample, tier, extra }));
    crate::envsim::end();
    let env_reads = crate::envsim::simulated_reads() - env0;
    match out {
        Ok(mut o) => {
            if env_reads > 0 {
                o.probes.add("environment:getenv_calls_answered_by_the_simulator", env_reads);
            }
            o
        }
        Err(p) => {
            // a panic that escaped the check's own guards: harness defect, not a property violation
            let mut o = RunOut::new();
            o.violation = Some(Violation { class: "harness-panic".into(), sig: format!("harness-panic@{}", p.loc), detail: format!("harness panicked at {}: {}", p.loc, p.msg), artefact: Value::Null });
            o
        }
    }
}

fn same_violation(a: &Violation, o: &RunOut) -> bool {
    matches!(&o.violation, Some(v) if v.class == a.class && v.sig == a.sig)
}

/// Shrink (ftape first, then wtape) while the same class+signature persists.
pub fn shrink(check: &dyn Check, index: u64, master: u64, tier: Tier, first: RunOut, budget: usize) -> (RunOut, usize) {
    let target = first.violation.clone().unwrap();
    let mut best = first;
    let mut tries = 0usize;
    let mut attempt = |wt: Vec<u64>, ft: Vec<u64>, best: &mut RunOut, tries: &mut usize| -> bool {
        if *tries >= budget {
            return false;
        }
        *tries += 1;
        tick();
        let o = exec(check, index, master, tier, false, Some(wt), Some(ft), Value::Null);
        if same_violation(&target, &o) {
            *best = o;
            true
        } else {
            false
        }
    };
    // pass 1: zero out fault tape entries (0 = "no fault"), by halves then singly
    for which in 0..2 {
        // which: 0 = ftape, 1 = wtape
        let mut progress = true;
        while progress && tries < budget {
            progress = false;
            let cur = if which == 0 { best.ftape.clone() } else { best.wtape.clone() };
            let n = cur.len();
            if n == 0 {
                break;
            }
            // delete spans (halving sizes)
            let mut size = n.max(1).next_power_of_two() / 2;
            while size >= 1 && tries < budget {
                let mut start = 0;
                while start < (if which == 0 { best.ftape.len() } else { best.wtape.len() }) && tries < budget {
                    let cur = if which == 0 { best.ftape.clone() } else { best.wtape.clone() };
                    let end = (start + size).min(cur.len());
                    if start >= end {
                        break;
                    }
                    // try deleting
                    let mut cand = cur.clone();
                    cand.drain(start..end);
                    let ok = if which == 0 { attempt(best.wtape.clone(), cand, &mut best, &mut tries) } else { attempt(cand, best.ftape.clone(), &mut best, &mut tries) };
                    if ok {
                        progress = true;
                        continue; // same start, list got shorter
                    }
                    // try zeroing
                    if cur[start..end].iter().any(|v| *v != 0) {
                        let mut cand = cur.clone();
                        for v in &mut cand[start..end] {
                            *v = 0;
                        }
                        let ok = if which == 0 { attempt(best.wtape.clone(), cand, &mut best, &mut tries) } else { attempt(cand, best.ftape.clone(), &mut best, &mut tries) };
                        if ok {
                            progress = true;
                        }
                    }
                    start += size;
                }
                size /= 2;
            }
            // halve individual values
            let cur = if which == 0 { best.ftape.clone() } else { best.wtape.clone() };
            for i in 0..cur.len() {
                if tries >= budget {
                    break;
                }
                let cur = if which == 0 { best.ftape.clone() } else { best.wtape.clone() };
                if i >= cur.len() || cur[i] <= 1 {
                    continue;
                }
                let mut cand = cur.clone();
                cand[i] = cur[i] / 2;
                let ok = if which == 0 { attempt(best.wtape.clone(), cand, &mut best, &mut tries) } else { attempt(cand, best.ftape.clone(), &mut best, &mut tries) };
                if ok {
                    progress = true;
                }
            }
        }
    }
    (best, tries)
}

// ------------------------------------------------------------------ heartbeat
static HB: std::sync::OnceLock<std::fs::File> = std::sync::OnceLock::new();
static HB_COUNTER: std::sync::atomic::AtomicU64 = std::sync::atomic::AtomicU64::new(0);
static HB_INDEX: std::sync::atomic::AtomicU64 = std::sync::atomic::AtomicU64::new(0);
/// Tell the supervisor's watchdog that the current run is making progress (sub-case boundary)
pub fn tick() {
    if let Some(f) = HB.get() {
        let c = HB_COUNTER.fetch_add(1, std::sync::atomic::Ordering::Relaxed) + 1;
        let i = HB_INDEX.load(std::sync::atomic::Ordering::Relaxed);
        let mut hbuf = [0u8; 16];
        hbuf[..8].copy_from_slice(&i.to_le_bytes());
        hbuf[8..].copy_from_slice(&c.to_le_bytes());
        let _ = f.write_at(&hbuf, 0);
    }
}

static CUR: std::sync::OnceLock<std::fs::File> = std::sync::OnceLock::new();
/// Record the sub-case about to be executed (kind = the replay key, e.g. "image_hex"), so that a run
/// that kills or hangs the worker can still be replayed exactly by the supervisor's report.
pub fn note_case(kind: &str, bytes: &[u8]) {
    if let Some(f) = CUR.get() {
        let mut head = [0u8; 40];
        let k = kind.as_bytes();
        head[..8].copy_from_slice(&(bytes.len() as u64).to_le_bytes());
        head[8..8 + k.len().min(32)].copy_from_slice(&k[..k.len().min(32)]);
        let _ = f.write_at(&head, 0);
        let _ = f.write_at(&bytes[..bytes.len().min(200_000)], 40);
    }
}
fn read_cur(p: &std::path::Path) -> Value {
    match std::fs::read(p) {
        Ok(b) if b.len() >= 40 => {
            let n = u64::from_le_bytes(b[..8].try_into().unwrap()) as usize;
            let kind = String::from_utf8_lossy(&b[8..40]).trim_end_matches('\0').to_string();
            if kind.is_empty() || b.len() < 40 + n.min(200_000) {
                return Value::Null;
            }
            let hex: String = b[40..40 + n.min(200_000)].iter().map(|x| format!("{:02x}", x)).collect();
            json!({ kind: hex })
        }
        _ => Value::Null,
    }
}

// ------------------------------------------------------------------ worker (child process)
pub struct WorkerArgs {
    pub first: u64,
    pub tier: Tier,
    pub master: u64,
    pub shard: u64,
    pub of: u64,
    pub runs: u64,
    pub batch: u64,
    pub from_batch: u64,
    pub skip: Vec<u64>,
    pub out: PathBuf,
    pub hb: PathBuf,
    pub deadline_s: u64,
}

pub fn stats_json(s: &IoStats) -> Value {
    let mut m = serde_json::Map::new();
    for i in 0..(K::N as usize) {
        m.insert(K_NAMES[i].to_string(), json!(s.c[i]));
    }
    Value::Object(m)
}
fn stats_from_json(v: &Value) -> IoStats {
    let mut s = IoStats::default();
    for i in 0..(K::N as usize) {
        s.c[i] = v.get(K_NAMES[i]).and_then(|x| x.as_u64()).unwrap_or(0);
    }
    s
}

pub fn replay_json(check: &dyn Check, index: u64, master: u64, tier: Tier, o: &RunOut, shrink_tries: usize) -> Value {
    let v = o.violation.as_ref().unwrap();
    json!({
        "property": check.id(),
        "tier": tier.name(),
        "master_seed": master,
        "run_index": index,
        "run_seed": run_seed(master, check.id(), index),
        "class": v.class,
        "signature": v.sig,
        "detail": v.detail,
        "wtape": o.wtape,
        "ftape": o.ftape,
        "extra": o.replay_extra,
        "event_log_digest": format!("{:016x}", o.digest),
        "artefact": v.artefact,
        "shrink_reexecutions": shrink_tries,
    })
}

pub fn worker(check: &dyn Check, a: WorkerArgs) -> i32 {
    install_panic_hook();
    let start = Instant::now();
    let _ = HB.set(std::fs::OpenOptions::new().create(true).write(true).open(&a.hb).expect("hb file"));
    let _ = CUR.set(std::fs::OpenOptions::new().create(true).write(true).truncate(true).open(a.hb.with_extension("cur")).expect("cur file"));
    let mut out = std::fs::OpenOptions::new().create(true).append(true).open(&a.out).expect("out file");
    let nbatches = (a.runs + a.batch - 1) / a.batch;
    let mut b = a.shard;
    let mut keys: HashSet<u64> = HashSet::new();
    let mut shrunk_sigs: HashSet<String> = HashSet::new();
    while b < nbatches {
        if b < a.from_batch {
            b += a.of;
            continue;
        }
        if a.deadline_s > 0 && start.elapsed() > Duration::from_secs(a.deadline_s) {
            break;
        }
        let lo = b * a.batch;
        let hi = ((b + 1) * a.batch).min(a.runs);
        let mut dig = Digest::new();
        let mut stats = IoStats::default();
        let mut probes = Probes::default();
        let mut steps = 0u64;
        let mut sim_ns = 0u64;
        let mut nontrivial = 0u64;
        let mut evals = 0u64;
        let mut viols: Vec<Value> = Vec::new();
        let mut samples: Vec<Value> = Vec::new();
        let mut batch_keys: Vec<u64> = Vec::new();
        for i in lo..hi {
            let i = i + a.first;
            if a.skip.contains(&i) {
                continue;
            }
            HB_INDEX.store(i, std::sync::atomic::Ordering::Relaxed);
            tick();
            let want_sample = i < 3;
            let o = exec(check, i, a.master, a.tier, want_sample, None, None, Value::Null);
            evals += o.evals;
            dig.u64(o.digest);
            stats.add(&o.stats);
            probes.merge(&o.probes);
            steps += o.steps;
            sim_ns += o.sim_ns;
            if o.nontrivial {
                nontrivial += 1;
                if keys.insert(o.key) {
                    batch_keys.push(o.key);
                }
            }
            for k in &o.more_keys {
                nontrivial += 1;
                if keys.insert(*k) {
                    batch_keys.push(*k);
                }
            }
            for (v, extra) in &o.also {
                if viols.len() < 64 {
                    let mut tmp = RunOut::new();
                    tmp.violation = Some(v.clone());
                    tmp.replay_extra = extra.clone();
                    tmp.digest = o.digest;
                    tmp.wtape = o.wtape.clone();
                    tmp.ftape = o.ftape.clone();
                    viols.push(replay_json(check, i, a.master, a.tier, &tmp, 0));
                }
            }
            if let Some(s) = o.sample.clone() {
                samples.push(s);
            }
            if let Some(v) = o.violation.clone() {
                let key = format!("{}|{}", v.class, v.sig);
                let (fin, tries) = if check.shrinkable() && v.class != "harness-panic" && !shrunk_sigs.contains(&key) {
                    shrunk_sigs.insert(key);
                    shrink(check, i, a.master, a.tier, o, 600)
                } else {
                    (o, 0)
                };
                if viols.len() < 64 {
                    viols.push(replay_json(check, i, a.master, a.tier, &fin, tries));
                } else {
                    probes.hit("violations_not_recorded_individually");
                }
            }
        }
        let line = json!({
            "batch": b, "evals": evals, "digest": format!("{:016x}", dig.finish()), "stats": stats_json(&stats), "probes": probes.0,
            "steps": steps, "sim_ns": sim_ns, "nontrivial": nontrivial, "keys": batch_keys, "violations": viols, "samples": samples,
        });
        let mut s = serde_json::to_string(&line).unwrap();
        s.push('\n');
        out.write_all(s.as_bytes()).expect("write out");
        out.flush().ok();
        b += a.of;
    }
    0
}

// ------------------------------------------------------------------ known findings
#[derive(Debug, Clone)]
pub struct Finding {
    pub property: String,
    pub sig: String,
    pub text: String,
}
pub fn load_findings() -> Vec<Finding> {
    let mut v = Vec::new();
    if let Ok(s) = std::fs::read_to_string("/verif/KNOWN_FINDINGS.txt") {
        for l in s.lines() {
            let l = l.trim();
            if let Some(rest) = l.strip_prefix("finding:") {
                let rest = rest.trim();
                let mut property = String::new();
                let mut sig = String::new();
                let mut text = Vec::new();
                for w in rest.split_whitespace() {
                    if let Some(p) = w.strip_prefix("property=") {
                        property = p.to_string();
                    } else if let Some(p) = w.strip_prefix("sig=") {
                        sig = p.to_string();
                    } else {
                        text.push(w);
                    }
                }
                v.push(Finding { property, sig, text: text.join(" ") });
            }
        }
    }
    v
}

// ------------------------------------------------------------------ supervisor
pub struct SupArgs {
    /// index of the first run (runs are first..first+runs)
    pub first: u64,
    pub tier: Tier,
    pub master: u64,
    pub jobs: u64,
    pub runs: Option<u64>,
    pub secs: Option<u64>,
    pub write_evidence: bool,
    pub quiet: bool,
}
pub struct SupResult {
    pub exit: i32,
    pub digest: String,
    pub evals: u64,
}

struct Child {
    proc: std::process::Child,
    shard: u64,
    out: PathBuf,
    hb: PathBuf,
    last_counter: u64,
    last_change: Instant,
    /// CPU seconds of the child when its heartbeat last changed
    cpu_at_change: f64,
    done: bool,
}

fn spawn_worker(exe: &std::path::Path, check: &dyn Check, a: &SupArgs, shard: u64, of: u64, runs: u64, batch: u64, from_batch: u64, skip: &[u64], dir: &std::path::Path, deadline: u64) -> Child {
    let out = dir.join(format!("out.{}.jsonl", shard));
    let hb = dir.join(format!("hb.{}", shard));
    let _ = std::fs::write(&hb, [0u8; 16]);
    let mut cmd = std::process::Command::new(exe);
    cmd.arg("worker").arg(check.id()).arg("--first").arg(a.first.to_string()).arg("--tier").arg(a.tier.name()).arg("--seed").arg(a.master.to_string()).arg("--shard").arg(shard.to_string()).arg("--of").arg(of.to_string()).arg("--runs").arg(runs.to_string()).arg("--batch").arg(batch.to_string()).arg("--from-batch").arg(from_batch.to_string()).arg("--out").arg(&out).arg("--hb").arg(&hb).arg("--deadline").arg(deadline.to_string());
    if !skip.is_empty() {
        cmd.arg("--skip").arg(skip.iter().map(|x| x.to_string()).collect::<Vec<_>>().join(","));
    }
    cmd.stdin(std::process::Stdio::null()).stdout(std::process::Stdio::null()).stderr(std::process::Stdio::null());
    let proc = cmd.spawn().expect("spawn worker");
    Child { proc, shard, out, hb, last_counter: 0, last_change: Instant::now(), cpu_at_change: 0.0, done: false }
}

/// CPU seconds (user+system) consumed so far by process `pid` (Linux /proc); None if unreadable
fn proc_cpu_secs(pid: u32) -> Option<f64> {
    let s = std::fs::read_to_string(format!("/proc/{}/stat", pid)).ok()?;
    let rest = &s[s.rfind(')')? + 2..];
    let f: Vec<&str> = rest.split_whitespace().collect();
    let ut: f64 = f.get(11)?.parse().ok()?;
    let st: f64 = f.get(12)?.parse().ok()?;
    Some((ut + st) / 100.0)
}
/// CPU seconds consumed so far by the calling thread
pub fn thread_cpu_secs() -> f64 {
    let mut ts = libc::timespec { tv_sec: 0, tv_nsec: 0 };
    unsafe {
        libc::clock_gettime(libc::CLOCK_THREAD_CPUTIME_ID, &mut ts);
    }
    ts.tv_sec as f64 + ts.tv_nsec as f64 * 1e-9
}
fn read_hb(p: &std::path::Path) -> (u64, u64) {
    match std::fs::read(p) {
        Ok(b) if b.len() >= 16 => (u64::from_le_bytes(b[..8].try_into().unwrap()), u64::from_le_bytes(b[8..16].try_into().unwrap())),
        _ => (0, 0),
    }
}
fn batches_done(p: &std::path::Path) -> Vec<u64> {
    let mut v = Vec::new();
    if let Ok(s) = std::fs::read_to_string(p) {
        for l in s.lines() {
            if let Ok(j) = serde_json::from_str::<Value>(l) {
                if let Some(b) = j.get("batch").and_then(|x| x.as_u64()) {
                    v.push(b);
                }
            }
        }
    }
    v
}

pub fn supervise(check: &dyn Check, a: SupArgs) -> SupResult {
    let t0 = Instant::now();
    let exe = std::env::current_exe().expect("current exe");
    let runs = a.runs.unwrap_or_else(|| check.runs(a.tier));
    let secs = a.secs.unwrap_or_else(|| check.secs(a.tier));
    let of = a.jobs.max(1);
    // batch size: keep >= 4 batches per worker but bounded
    let batch = ((runs / 128).max(1)).min(4096); // independent of the job count, so merged digests are too
    let dir = PathBuf::from(format!("/verif/sim/target/run-{}-{}", check.id(), std::process::id()));
    let _ = std::fs::remove_dir_all(&dir);
    std::fs::create_dir_all(&dir).expect("mkdir run dir");
    if !a.quiet {
        println!("VERIF_SEED={} check={} tier={} runs<={} jobs={} budget={}s", a.master, check.id(), a.tier.name(), runs, of, secs);
    }
    let mut fatal: Vec<(u64, String, String, Value)> = Vec::new(); // (index, class, detail, replay extra)
    let mut skip: Vec<u64> = Vec::new();
    let mut children: Vec<Child> = (0..of).map(|k| spawn_worker(&exe, check, &a, k, of, runs, batch, 0, &skip, &dir, secs)).collect();
    let hang = Duration::from_secs(check.hang_secs());
    let mut harness_error: Option<String> = None;
    let mut stop_early = false;
    loop {
        let mut alive = 0;
        let mut respawn: Vec<(usize, u64)> = Vec::new();
        for (ci, c) in children.iter_mut().enumerate() {
            if c.done {
                continue;
            }
            match c.proc.try_wait() {
                Ok(Some(st)) => {
                    if st.success() {
                        c.done = true;
                    } else {
                        // died: attribute to the run named by the heartbeat
                        let (idx, _cnt) = read_hb(&c.hb);
                        fatal.push((idx, "abort".into(), format!("worker died ({})", st), read_cur(&c.hb.with_extension("cur"))));
                        skip.push(idx);
                        respawn.push((ci, idx.saturating_sub(a.first) / batch));
                    }
                }
                Ok(None) => {
                    alive += 1;
                    let (idx, cnt) = read_hb(&c.hb);
                    // A hang is "no progress while burning CPU": the budget is CPU seconds of the child, so a loaded
                    // machine cannot make a healthy run look hung; wall time is only a 20x backstop (blocked forever).
                    let cpu = proc_cpu_secs(c.proc.id()).unwrap_or(0.0);
                    if cnt != c.last_counter {
                        c.last_counter = cnt;
                        c.last_change = Instant::now();
                        c.cpu_at_change = cpu;
                    } else if cnt > 0 && (cpu - c.cpu_at_change > hang.as_secs_f64() || c.last_change.elapsed() > hang * 20) {
                        let _ = c.proc.kill();
                        let _ = c.proc.wait();
                        alive -= 1;
                        fatal.push((idx, "hang".into(), format!("run made no progress for {}s of CPU time", hang.as_secs()), read_cur(&c.hb.with_extension("cur"))));
                        skip.push(idx);
                        respawn.push((ci, idx.saturating_sub(a.first) / batch));
                    }
                }
                Err(e) => {
                    harness_error = Some(format!("try_wait: {}", e));
                }
            }
        }
        for (ci, b) in respawn {
            if fatal.len() >= 12 {
                // enough evidence: stop exploring, report what was found
                stop_early = true;
                break;
            }
            let shard = children[ci].shard;
            let remaining = secs.saturating_sub(t0.elapsed().as_secs()).max(5);
            children[ci] = spawn_worker(&exe, check, &a, shard, of, runs, batch, b, &skip, &dir, remaining);
            alive += 1;
        }
        if alive == 0 || harness_error.is_some() || stop_early {
            break;
        }
        std::thread::sleep(Duration::from_millis(50));
    }
    for c in children.iter_mut() {
        let _ = c.proc.kill();
        let _ = c.proc.wait();
    }
    // merge: one line per batch; a batch re-run after a death appears twice → keep the last
    let mut lines: BTreeMap<u64, Value> = BTreeMap::new();
    for k in 0..of {
        let p = dir.join(format!("out.{}.jsonl", k));
        if let Ok(s) = std::fs::read_to_string(&p) {
            for l in s.lines() {
                match serde_json::from_str::<Value>(l) {
                    Ok(j) => {
                        let b = j["batch"].as_u64().unwrap_or(u64::MAX);
                        lines.insert(b, j);
                    }
                    Err(_) => {} // a torn last line of a killed worker
                }
            }
        }
    }
    let _ = batches_done; // (kept for debugging)
    let mut dig = Digest::new();
    let mut stats = IoStats::default();
    let mut probes = Probes::default();
    let (mut evals, mut steps, mut sim_ns, mut nontrivial) = (0u64, 0u64, 0u64, 0u64);
    let mut keys: HashSet<u64> = HashSet::new();
    let mut viols: Vec<Value> = Vec::new();
    let mut samples: Vec<Value> = Vec::new();
    for (_b, j) in &lines {
        evals += j["evals"].as_u64().unwrap_or(0);
        steps += j["steps"].as_u64().unwrap_or(0);
        sim_ns += j["sim_ns"].as_u64().unwrap_or(0);
        nontrivial += j["nontrivial"].as_u64().unwrap_or(0);
        dig.str(j["digest"].as_str().unwrap_or(""));
        stats.add(&stats_from_json(&j["stats"]));
        if let Some(m) = j["probes"].as_object() {
            for (k, v) in m {
                probes.add(k, v.as_u64().unwrap_or(0));
            }
        }
        if let Some(ks) = j["keys"].as_array() {
            for k in ks {
                keys.insert(k.as_u64().unwrap_or(0));
            }
        }
        if let Some(vs) = j["violations"].as_array() {
            for v in vs {
                viols.push(v.clone());
            }
        }
        if let Some(ss) = j["samples"].as_array() {
            for s in ss {
                if samples.len() < 3 {
                    samples.push(s.clone());
                }
            }
        }
    }
    for (idx, class, why, extra) in &fatal {
        // fatal runs: re-describe through the check (no shrinking possible in-process)
        viols.push(json!({
            "property": check.id(), "tier": a.tier.name(), "master_seed": a.master, "run_index": idx, "run_seed": run_seed(a.master, check.id(), *idx),
            "class": class, "signature": format!("{}@run", class), "detail": why, "wtape": Value::Null, "ftape": Value::Null, "extra": extra,
            "event_log_digest": "", "artefact": Value::Null, "shrink_reexecutions": 0,
        }));
    }
    // classify against known findings; one report per distinct signature
    let findings = load_findings();
    let mut seen: BTreeMap<String, (Value, u64)> = BTreeMap::new();
    for v in viols {
        let sig = format!("{}|{}", v["class"].as_str().unwrap_or(""), v["signature"].as_str().unwrap_or(""));
        seen.entry(sig).and_modify(|e| e.1 += 1).or_insert((v, 1));
    }
    let mut exit = 0;
    let mut known_hits: Vec<Value> = Vec::new();
    let mut new_viol = 0i64;
    let _ = std::fs::create_dir_all("/verif/replays");
    for (_k, (v, count)) in &seen {
        let sig = v["signature"].as_str().unwrap_or("").to_string();
        let class = v["class"].as_str().unwrap_or("").to_string();
        if class == "harness-panic" {
            harness_error = Some(format!("{}: {}", sig, v["detail"].as_str().unwrap_or("")));
            continue;
        }
        if let Some(f) = findings.iter().find(|f| f.property == check.id() && f.sig == sig) {
            println!("KNOWN-FINDING: property={} {} [sig={} hits={}]", check.id(), f.text, sig, count);
            known_hits.push(json!({"signature": sig, "hits": count, "text": f.text}));
            continue;
        }
        new_viol += 1;
        exit = 1;
        let fname = format!("/verif/replays/{}-{}-{}.json", check.id(), sanitize(&sig), v["run_seed"].as_u64().unwrap_or(0));
        let _ = std::fs::write(&fname, serde_json::to_string_pretty(v).unwrap());
        println!("VIOLATION property={} replay={}", check.id(), fname);
        if !a.quiet {
            println!("  class={} signature={} occurrences={} detail={}", class, sig, count, truncate(v["detail"].as_str().unwrap_or(""), 400));
        }
    }
    let wall = t0.elapsed().as_secs_f64();
    let digest = format!("{:016x}", dig.finish());
    if let Some(e) = &harness_error {
        eprintln!("HARNESS-ERROR: {}", e);
        exit = 2;
    }
    if a.write_evidence && exit != 2 {
        let mut fired = serde_json::Map::new();
        for k in [K::ShortWrite, K::ShortRead, K::EintrWrite, K::EintrRead, K::EioWrite, K::EnospcWrite, K::EioRead, K::FlushErr, K::CreateErr, K::OpenErr, K::ChunkedWrite, K::ChunkedRead, K::EofRead, K::WouldBlockWrite, K::WouldBlockRead, K::TimedOutRead, K::ZeroWrite] {
            fired.insert(K_NAMES[k as usize].to_string(), json!(stats.get(k)));
        }
        let ev = json!({
            "property_id": check.id(),
            "tier": a.tier.name(),
            "seed": a.master,
            "level": check.level(),
            "coverage": {
                "evaluations": evals,
                "distinct_nontrivial": keys.len(),
                "nontrivial_total": nontrivial,
                "rule": check.rule(),
                "samples": samples,
                "exhaustive": false,
                "runs_per_hour": if wall > 0.0 { (evals as f64 / wall * 3600.0) as u64 } else { 0 },
                "seeds_per_hour": if wall > 0.0 { (evals as f64 / wall * 3600.0) as u64 } else { 0 },
                "simulated_io_steps": steps,
                "simulated_time_ns": sim_ns,
                "fault_kinds_fired": Value::Object(fired),
                "io_counters": stats_json(&stats),
                "probes": probes.0,
                "distinct_interleavings_measure": "distinct (workload-structure digest, fired-fault/schedule digest) pairs among non-trivial runs",
                "real_vs_stub": check.real_vs_stub(),
                "known_finding_hits": known_hits,
                "fatal_runs": fatal.len(),
                "event_log_digest": digest,
                "jobs": of,
                "extra": check.extra_evidence(a.tier),
            },
            "assumptions": check.assumptions(),
            "wall_s": wall,
            "violations": new_viol,
        });
        let _ = std::fs::create_dir_all("/verif/evidence");
        let p = format!("/verif/evidence/{}.json", check.id());
        std::fs::write(&p, serde_json::to_string_pretty(&ev).unwrap()).expect("write evidence");
    }
    if !a.quiet {
        println!("check={} tier={} evaluations={} distinct_nontrivial={} faults_fired={} violations={} known_findings={} wall={:.1}s digest={}", check.id(), a.tier.name(), evals, keys.len(), stats.faults_fired(), new_viol, known_hits.len(), wall, digest);
    }
    let _ = std::fs::remove_dir_all(&dir);
    SupResult { exit, digest, evals }
}

pub fn sanitize(s: &str) -> String {
    let t: String = s.chars().map(|c| if c.is_ascii_alphanumeric() || c == '.' || c == '_' { c } else { '-' }).collect();
    truncate(&t, 80)
}

// ------------------------------------------------------------------ replay
pub fn replay(check: &dyn Check, file: &Value) -> i32 {
    install_panic_hook();
    let tier = if file["tier"].as_str() == Some("thorough") { Tier::Thorough } else { Tier::Quick };
    let master = file["master_seed"].as_u64().unwrap_or(DEFAULT_SEED);
    let index = file["run_index"].as_u64().unwrap_or(0);
    let wt: Option<Vec<u64>> = file["wtape"].as_array().map(|a| a.iter().map(|x| x.as_u64().unwrap_or(0)).collect());
    let ft: Option<Vec<u64>> = file["ftape"].as_array().map(|a| a.iter().map(|x| x.as_u64().unwrap_or(0)).collect());
    let o = exec(check, index, master, tier, true, wt, ft, file["extra"].clone());
    let want_class = file["class"].as_str().unwrap_or("");
    let want_sig = file["signature"].as_str().unwrap_or("");
    let want_dig = file["event_log_digest"].as_str().unwrap_or("");
    match &o.violation {
        Some(v) => {
            let dig = format!("{:016x}", o.digest);
            let same = v.class == want_class && v.sig == want_sig;
            println!("replay: class={} signature={} digest={} (recorded: class={} signature={} digest={})", v.class, v.sig, dig, want_class, want_sig, want_dig);
            println!("  detail: {}", truncate(&v.detail, 600));
            if same && (want_dig.is_empty() || dig == want_dig) {
                println!("VIOLATION property={} replay=<reproduced exactly>", check.id());
                1
            } else if same {
                println!("VIOLATION property={} replay=<reproduced: same class and signature, different event log>", check.id());
                1
            } else {
                println!("VIOLATION property={} replay=<a different violation>", check.id());
                1
            }
        }
        None => {
            println!("replay: no violation (recorded: class={} signature={})", want_class, want_sig);
            0
        }
    }
}

/// Replay in a child process, so that a recorded hang / abort is reproduced as such instead of taking the caller down
pub fn replay_contained(check: &dyn Check, file: &Value, path: &str) -> i32 {
    let exe = std::env::current_exe().expect("exe");
    let mut child = std::process::Command::new(exe).arg("replay").arg(path).arg("--inner").stdin(std::process::Stdio::null()).spawn().expect("spawn replay");
    let limit = Duration::from_secs(check.hang_secs() * 3 + 5);
    let t0 = Instant::now();
    let want = file["class"].as_str().unwrap_or("");
    loop {
        match child.try_wait() {
            Ok(Some(st)) => {
                if let Some(c) = st.code() {
                    return c;
                }
                println!("replay: the process died ({}) (recorded: class={})", st, want);
                println!("VIOLATION property={} replay=<reproduced: abort>", check.id());
                return 1;
            }
            Ok(None) => {
                if t0.elapsed() > limit {
                    let _ = child.kill();
                    let _ = child.wait();
                    println!("replay: no result after {}s (recorded: class={})", limit.as_secs(), want);
                    println!("VIOLATION property={} replay=<reproduced: hang>", check.id());
                    return 1;
                }
                std::thread::sleep(Duration::from_millis(20));
            }
            Err(_) => return 2,
        }
    }
}
