//! `l21sim selftest refcodec` — sanity of the reference codec R-gds against facts
//! that do not come from gds21: published real-number encodings, the repository's
//! sample files (decoded by R-gds, re-encoded, compared byte for byte), and
//! encode/decode identities over a boundary-heavy sample of doubles.

use crate::gdsref::*;
use crate::rng::Tape;

pub fn run() -> i32 {
    let mut bad = 0;
    let mut check = |name: &str, ok: bool| {
        println!("selftest refcodec: {:<60} {}", name, if ok { "ok" } else { "FAILED" });
        if !ok {
            bad += 1;
        }
    };
    // 1. well-known encodings (as found in every GDSII file with 1 nm / 1 um units)
    check("1.0 encodes to 41 10 00 00 00 00 00 00", real_encode(1.0f64.to_bits()) == Some(0x4110_0000_0000_0000));
    check("0.001 encodes to 3E 41 89 37 4B C6 A7 F0 (53-bit value)", real_encode(0.001f64.to_bits()) == Some(0x3E41_8937_4BC6_A7F0));
    check("3E 41 89 37 4B C6 A7 EF (56-bit 0.001) decodes to the double 0.001", real_decode(0x3E41_8937_4BC6_A7EF) == 0.001f64.to_bits());
    check("39 44 B8 2F A0 9B 5A 54 (56-bit 1e-9) decodes to the double 1e-9", real_decode(0x3944_B82F_A09B_5A54) == 1e-9f64.to_bits());
    check("-2.0 encodes to C1 20 ..", real_encode((-2.0f64).to_bits()) == Some(0xC120_0000_0000_0000));
    check("0.0 encodes to all zero", real_encode(0.0f64.to_bits()) == Some(0));
    check("16^-65 (smallest normalised) decodes exactly", real_decode(0x0010_0000_0000_0000) == 2f64.powi(-260).to_bits());
    check("largest value decodes to (1-2^-56)*16^63 rounded", f64::from_bits(real_decode(0x7FFF_FFFF_FFFF_FFFF)) == 2f64.powi(252));
    // 2. identity over boundary-heavy doubles
    let mut t = Tape::record(0xC0DEC);
    let mut ok = true;
    let mut n = 0;
    for _ in 0..200_000 {
        let x = crate::gen_gds::gen_real(&mut t, true);
        match real_encode(x.to_bits()) {
            Some(w) => {
                n += 1;
                if real_decode(w) != x.to_bits() || !(real_is_normalised(w) || (w >> 56) & 0x7f == 0) {
                    ok = false;
                }
            }
            None => ok = false,
        }
    }
    check(&format!("decode(encode(x)) == x and normalised (or exponent field 0) for {} in-range doubles", n), ok);
    // 3. the repository's sample files: scan, decode, re-encode -> identical bytes (up to real re-normalisation)
    for (name, bytes) in crate::checks::c10::CORPUS.iter() {
        let recs = scan(bytes, false);
        let okscan = recs.is_ok();
        check(&format!("{}: framing scan reaches ENDLIB", name), okscan);
        if let Ok(recs) = recs {
            let mut pr = DecodeProbes::default();
            match decode(&recs, &mut pr) {
                Ok(model) => {
                    check(&format!("{}: BNF recogniser accepts ({} records, {} structs)", name, recs.len(), model.structs.len()), true);
                    // re-encode and decode again: same model (bytes may differ only in 56-bit real tails)
                    match encode(&model).and_then(|b| scan(&b, true)).and_then(|r| decode(&r, &mut pr)) {
                        Ok(m2) => check(&format!("{}: encode(decode(file)) decodes to the same model", name), diff(&model, &m2).is_none()),
                        Err(e) => check(&format!("{}: re-encode failed: {}", name, e), false),
                    }
                    // and the real reader agrees with R-gds on the content of the file
                    match gds21::GdsLibrary::from_bytes(bytes) {
                        Ok(lib) => check(&format!("{}: gds21 and R-gds read the same content", name), diff(&model, &crate::checks::gdscommon::model_of(&lib)).is_none()),
                        Err(e) => check(&format!("{}: gds21 rejects the file: {}", name, e), false),
                    }
                }
                // sample1.gds was written by a tool that emits TEXT records out of the specification's order
                // (TEXT LAYER TEXTTYPE STRING XY PRESENTATION STRANS MAG); gds21's reader is order-tolerant, the
                // strict recogniser must refuse it at exactly that record
                Err(e) if *name == "sample1.gds" => check("sample1.gds: strict BNF recogniser refuses its out-of-order TEXT (STRING before XY)", e.contains("expected XY but found STRING")),
                Err(e) => check(&format!("{}: recogniser rejects: {}", name, e), false),
            }
        }
    }
    if bad == 0 {
        println!("selftest refcodec: ok");
        0
    } else {
        2
    }
}
