//! PRNG, decision tape and digest helpers. No OS entropy, no clocks.

pub fn splitmix64(x: &mut u64) -> u64 {
    *x = x.wrapping_add(0x9E37_79B9_7F4A_7C15);
    let mut z = *x;
    z = (z ^ (z >> 30)).wrapping_mul(0xBF58_476D_1CE4_E5B9);
    z = (z ^ (z >> 27)).wrapping_mul(0x94D0_49BB_1331_11EB);
    z ^ (z >> 31)
}

pub fn fnv64(bytes: &[u8]) -> u64 {
    let mut h: u64 = 0xcbf2_9ce4_8422_2325;
    for b in bytes {
        h ^= *b as u64;
        h = h.wrapping_mul(0x0000_0100_0000_01B3);
    }
    h
}

/// Incremental 64-bit digest (FNV-1a over fed bytes, finalised with splitmix)
#[derive(Clone, Debug)]
pub struct Digest(pub u64);
impl Default for Digest {
    fn default() -> Self {
        Digest(0xcbf2_9ce4_8422_2325)
    }
}
impl Digest {
    pub fn new() -> Self {
        Self::default()
    }
    pub fn bytes(&mut self, b: &[u8]) {
        for x in b {
            self.0 ^= *x as u64;
            self.0 = self.0.wrapping_mul(0x0000_0100_0000_01B3);
        }
    }
    pub fn u64(&mut self, v: u64) {
        self.bytes(&v.to_le_bytes());
    }
    pub fn str(&mut self, s: &str) {
        self.u64(s.len() as u64);
        self.bytes(s.as_bytes());
    }
    pub fn finish(&self) -> u64 {
        let mut x = self.0;
        splitmix64(&mut x)
    }
}

/// xoshiro256**
#[derive(Clone, Debug)]
pub struct Rng {
    s: [u64; 4],
}
impl Rng {
    pub fn new(seed: u64) -> Self {
        let mut x = seed;
        let s = [
            splitmix64(&mut x),
            splitmix64(&mut x),
            splitmix64(&mut x),
            splitmix64(&mut x),
        ];
        Rng { s }
    }
    pub fn next(&mut self) -> u64 {
        let r = self.s[1].wrapping_mul(5).rotate_left(7).wrapping_mul(9);
        let t = self.s[1] << 17;
        self.s[2] ^= self.s[0];
        self.s[3] ^= self.s[1];
        self.s[1] ^= self.s[2];
        self.s[0] ^= self.s[3];
        self.s[2] ^= t;
        self.s[3] = self.s[3].rotate_left(45);
        r
    }
}

/// Seed of run `i` of check `check` under master seed `master`
pub fn run_seed(master: u64, check: &str, i: u64) -> u64 {
    let mut x = master ^ fnv64(check.as_bytes()) ^ i.wrapping_mul(0xA24B_AED4_963E_E407);
    splitmix64(&mut x)
}

/// A decision tape: every generator draw goes through `draw`. In record mode
/// values come from the PRNG and are stored; in replay mode they are read back
/// (reduced modulo the bound, 0 when exhausted), so a workload is a pure
/// function of its tape and the shrinker can edit the tape directly.
#[derive(Clone, Debug)]
pub struct Tape {
    rng: Option<Rng>,
    pub vals: Vec<u64>,
    pos: usize,
}
impl Tape {
    pub fn record(seed: u64) -> Self {
        Tape { rng: Some(Rng::new(seed)), vals: Vec::new(), pos: 0 }
    }
    pub fn replay(vals: Vec<u64>) -> Self {
        Tape { rng: None, vals, pos: 0 }
    }
    /// Values actually consumed so far (replay) or produced (record)
    pub fn used(&self) -> Vec<u64> {
        self.vals[..self.pos.min(self.vals.len())].to_vec()
    }
    /// Uniform draw in `0..bound` (`bound` >= 1)
    pub fn draw(&mut self, bound: u64) -> u64 {
        let bound = bound.max(1);
        match self.rng {
            Some(ref mut r) => {
                let v = r.next() % bound;
                self.vals.push(v);
                self.pos += 1;
                v
            }
            None => {
                let v = if self.pos < self.vals.len() { self.vals[self.pos] % bound } else { 0 };
                self.pos += 1;
                v
            }
        }
    }
    /// Full-width draw
    pub fn bits(&mut self) -> u64 {
        match self.rng {
            Some(ref mut r) => {
                let v = r.next();
                self.vals.push(v);
                self.pos += 1;
                v
            }
            None => {
                let v = if self.pos < self.vals.len() { self.vals[self.pos] } else { 0 };
                self.pos += 1;
                v
            }
        }
    }
    /// true with probability num/den; 0 on the tape means false
    pub fn chance(&mut self, num: u64, den: u64) -> bool {
        let v = self.draw(den);
        v >= den - num.min(den)
    }
    pub fn range(&mut self, lo: u64, hi_incl: u64) -> u64 {
        lo + self.draw(hi_incl - lo + 1)
    }
    pub fn pick<'a, T>(&mut self, xs: &'a [T]) -> &'a T {
        &xs[self.draw(xs.len() as u64) as usize]
    }
}
