//! C20 under Miri: the same conversion inputs as `l21sim check C20`, executed by the
//! interpreter, where both the SipHash keys of `RandomState` and every allocation
//! address are a function of the Miri seed (`-Zmiri-many-seeds`). The program prints one
//! line per (conversion, input); the driver script compares the lines across seeds.
//!
//!   cargo +nightly miri run --offline -- <first input> <count>

#[path = "../../sim/src/rng.rs"]
mod rng;
#[path = "../../sim/src/gen_conv.rs"]
mod gen_conv;
#[path = "../../sim/src/gen_tetris.rs"]
mod gen_tetris;

use gen_conv::*;
use layout21raw as raw;
use rng::{fnv64, Tape};

fn convert(conv: usize, t: &mut Tape) -> Result<String, String> {
    match conv {
        0 => {
            let g = gen_gds_importable(t);
            let lib = raw::Library::from_gds(&g, None).map_err(|e| format!("{:?}", e))?;
            Ok(dump_raw(&lib))
        }
        1 => {
            let lib = gen_raw(t, &RawOpts { allow_path_in_abstract: true, allow_pico: true });
            let g = lib.to_gds().map_err(|e| format!("{:?}", e))?;
            Ok(dump_gds_nodates(&g).0)
        }
        2 => {
            let lib = gen_raw(t, &RawOpts { allow_path_in_abstract: true, allow_pico: false });
            let p = lib.to_proto().map_err(|e| format!("{:?}", e))?;
            Ok(format!("{:#?}", p))
        }
        3 => {
            let l = gen_lef_for_import(t);
            let rawlib = raw::lef::LefImporter::import(&l, None).map_err(|e| format!("{:?}", e))?;
            let mut d = dump_raw(&rawlib);
            let back = raw::lef::LefExporter::export(&rawlib).map_err(|e| format!("{:?}", e))?;
            d.push_str(&dump_lef(&back));
            Ok(d)
        }
        _ => {
            let (lib, stk) = gen_tetris::gen_tetris(t).map_err(|e| format!("generator: {:?}", e))?;
            let rawlib = layout21tetris::conv::raw::RawExporter::convert(lib, stk).map_err(|e| format!("{:?}", e))?;
            let r = rawlib.read().map_err(|_| "poisoned".to_string())?;
            Ok(dump_raw(&r))
        }
    }
}

fn main() {
    let args: Vec<String> = std::env::args().collect();
    let first: u64 = args.get(1).and_then(|s| s.parse().ok()).unwrap_or(0);
    let count: u64 = args.get(2).and_then(|s| s.parse().ok()).unwrap_or(5);
    // fixed clock: the interpreter runs with isolation on, so the real clock must never be read
    layout21utils::verif::install_clock(Some(Box::new(|| [126, 10, 3, 12, 0, 0])));
    // an allocation-address probe and a hash-order probe, to show that the Miri seed turns both
    let a = Box::new(1u8);
    let b = Box::new(2u8);
    let addr_order = (&*a as *const u8 as usize) < (&*b as *const u8 as usize);
    let mut m = std::collections::HashMap::new();
    for i in 0..8u32 {
        m.insert(i, ());
    }
    let order: Vec<u32> = m.keys().copied().collect();
    eprintln!("probe addr_order={} hash_order={:?}", addr_order, order);
    for i in first..first + count {
        let conv = (i % 5) as usize;
        let mut t = Tape::record(rng::run_seed(20261003, "C20-miri", i));
        let out = std::panic::catch_unwind(std::panic::AssertUnwindSafe(|| convert(conv, &mut t)));
        let line = match out {
            Ok(Ok(d)) => format!("ok {:016x} {}", fnv64(d.as_bytes()), d.len()),
            Ok(Err(e)) => format!("err {}", e.lines().next().unwrap_or("").split('{').next().unwrap_or("")),
            Err(_) => "panic".to_string(),
        };
        println!("input={} conv={} {}", i, conv, line);
    }
}
