//! l21real — hook-OFF companion of l21sim.
//!
//! The simulator replaces `File::create` / `File::open` call sites through the
//! `cfg(layout21_verif)` hooks, so the shipped variants of exactly those lines
//! (and `GdsParser::open` / `GdsReader::open`) never run inside it. This program
//! links the repository with the guard OFF and drives the same generators through
//! the real file helpers on a scratch directory, fault-free and single-threaded
//! (nothing here is scheduled; it is the deterministic "no-fault configuration"
//! of the file-level checks on the un-hooked code), including the state "a longer
//! file already exists at the destination".
//!
//!   l21real check <C01|C02|C05|C18> [--runs N] [--seed S] [--out summary.json]
//!   l21real replay <file>

#[path = "../../sim/src/rng.rs"]
mod rng;
#[path = "../../sim/src/gen_gds.rs"]
mod gen_gds;
#[path = "../../sim/src/gen_lef.rs"]
mod gen_lef;
#[path = "../../sim/src/gdsref.rs"]
mod gdsref;
#[path = "../../sim/src/gen_nlib.rs"]
mod gen_nlib;

use gen_gds::{gen_lib, StrProfile};
use rng::{run_seed, Tape};
use serde_json::{json, Value};
use std::path::{Path, PathBuf};

fn arg<'a>(args: &'a [String], name: &str) -> Option<&'a str> {
    args.iter().position(|a| a == name).and_then(|i| args.get(i + 1)).map(|s| s.as_str())
}
fn scratch() -> PathBuf {
    let base = if Path::new("/dev/shm").is_dir() { PathBuf::from("/dev/shm") } else { std::env::temp_dir() };
    let d = base.join(format!("l21real-{}", std::process::id()));
    let _ = std::fs::remove_dir_all(&d);
    std::fs::create_dir_all(&d).expect("scratch dir");
    d
}
/// How this run spells the file names it hands to the code under test (directory form is chosen in run_one).
static NAME_STYLE: std::sync::atomic::AtomicU64 = std::sync::atomic::AtomicU64::new(0);
const NAME_STYLES: [&str; 12] = ["plain", "upper-ext", "no-ext", "non-ascii+space", "long-name", "hidden", "other-ext", "many-dots", "symlink", "non-utf8", "trailing-space", "leading-space"];
/// For interfaces that take paths as `String` (markup pipeline options, command-line arguments built here):
/// the non-UTF-8 style cannot be expressed there and falls back to the plain name.
fn nm_utf8(dir: &Path, name: &str) -> PathBuf {
    if NAME_STYLE.load(std::sync::atomic::Ordering::Relaxed) == 9 {
        dir.join(name)
    } else {
        nm(dir, name)
    }
}
fn nm(dir: &Path, name: &str) -> PathBuf {
    let (stem, ext) = match name.rfind('.') {
        Some(i) => (&name[..i], &name[i + 1..]),
        None => (name, ""),
    };
    let n = match NAME_STYLE.load(std::sync::atomic::Ordering::Relaxed) {
        1 => format!("{}.{}", stem, ext.to_uppercase()),
        2 => format!("{}_{}", stem, ext),
        3 => format!("\u{82af}\u{7247} \u{df} {}.{}", stem, ext),
        4 => format!("{}{}.{}", stem, "x".repeat(200), ext),
        5 => format!(".{}.{}", stem, ext),
        6 => format!("{}.{}.bak", stem, ext),
        7 => format!("{}.v2.final.{}", stem, ext),
        8 => {
            // the name is a symbolic link to a file that may or may not exist yet
            let link = dir.join(format!("link_{}", name));
            if !link.is_symlink() {
                let _ = std::fs::remove_file(&link);
                let _ = std::os::unix::fs::symlink(format!("target_of_{}", name), &link);
            }
            return link;
        }
        9 => {
            use std::os::unix::ffi::OsStringExt;
            let mut b = b"caf\xE9-m\xFCller-".to_vec();
            b.extend_from_slice(name.as_bytes());
            return dir.join(std::ffi::OsString::from_vec(b));
        }
        10 => format!("{} ", name),
        11 => format!(" {}", name),
        _ => name.to_string(),
    };
    dir.join(n)
}
/// Destination pre-state: what already exists at the path before the helper under test writes it
fn prestate(t: &mut Tape, path: &Path, new_len: usize) -> &'static str {
    // a symbolic link stays in place: its target is what is absent / junk
    let target = if path.is_symlink() { path.parent().unwrap_or(Path::new("")).join(std::fs::read_link(path).unwrap()) } else { path.to_path_buf() };
    let _ = std::fs::remove_file(&target);
    match t.draw(4) {
        0 => "absent",
        1 => {
            std::fs::write(path, vec![0xAA; new_len / 2]).unwrap();
            "shorter-junk"
        }
        2 => {
            let extra = 1 + t.draw(5000) as usize;
            std::fs::write(path, vec![0x55; new_len + extra]).unwrap();
            "longer-junk"
        }
        _ => {
            std::fs::write(path, vec![0x00; new_len]).unwrap();
            "same-length-junk"
        }
    }
}

struct Viol {
    sig: String,
    detail: String,
}

fn one_gds(id: &str, t: &mut Tape, dir: &Path, probes: &mut std::collections::BTreeMap<String, u64>) -> Option<Viol> {
    let (lib, _) = gen_lib(t, StrProfile::Gds);
    let mut bytes0 = Vec::new();
    if lib.write(&mut bytes0).is_err() {
        *probes.entry("write_returned_err".into()).or_insert(0) += 1;
        return None;
    }
    let path = nm(dir, "out.gds");
    let pre = prestate(t, &path, bytes0.len());
    *probes.entry(format!("prestate_{}", pre)).or_insert(0) += 1;
    if let Err(e) = lib.save(&path) {
        return Some(Viol { sig: "realfs:save/result".into(), detail: format!("save to a real file failed: {}", e) });
    }
    let file = std::fs::read(&path).unwrap_or_default();
    if file != bytes0 {
        return Some(Viol { sig: format!("realfs:save/bytes/{}", pre), detail: format!("the saved file ({} bytes, destination was {}) differs from the stream write() produces ({} bytes): it is not a GDSII stream ending with ENDLIB holding that content", file.len(), pre, bytes0.len()) });
    }
    if id == "C01" && bytes0.len() < 60_000 {
        // the same bytes through a named pipe: not a regular file, not seekable; a conformant stream must still be read
        let fifo = dir.join("pipe.gds");
        let _ = std::fs::remove_file(&fifo);
        let c = std::ffi::CString::new(fifo.to_string_lossy().as_bytes()).unwrap();
        if unsafe { libc::mkfifo(c.as_ptr(), 0o600) } == 0 {
            let data = bytes0.clone();
            let fp = fifo.clone();
            let w = std::thread::spawn(move || {
                if let Ok(mut f) = std::fs::OpenOptions::new().write(true).open(&fp) {
                    use std::io::Write;
                    let _ = f.write_all(&data);
                }
            });
            let r = gds21::GdsLibrary::open(&fifo);
            // if the reader never opened the pipe, the writer is still blocked in open(2): release it before joining
            // (the read end stays open until the writer is done: the stream is < 60 000 bytes and fits the pipe buffer)
            let keep = {
                use std::os::unix::fs::OpenOptionsExt;
                std::fs::OpenOptions::new().read(true).custom_flags(libc::O_NONBLOCK).open(&fifo)
            };
            let _ = w.join();
            drop(keep);
            *probes.entry("opened_through_a_fifo".into()).or_insert(0) += 1;
            match r {
                Err(e) => return Some(Viol { sig: "realfs:open-fifo/result".into(), detail: format!("a conformant stream delivered through a named pipe is rejected: {}", e) }),
                Ok(l2) => {
                    if l2 != lib {
                        return Some(Viol { sig: "realfs:open-fifo/value".into(), detail: "the library read through a named pipe differs".into() });
                    }
                }
            }
        }
    }
    if id == "C01" && bytes0.len() > 8 {
        // history on a real path: read it, replace it by a different stream of the SAME length, read it again
        let p2 = nm(dir, "twice.gds");
        std::fs::write(&p2, &bytes0).unwrap();
        if gds21::GdsLibrary::open(&p2).is_ok() {
            let mut b1 = bytes0.clone();
            b1[5] = b1[5].wrapping_add(1); // low byte of the HEADER version
            std::fs::write(&p2, &b1).unwrap();
            match gds21::GdsLibrary::open(&p2) {
                Ok(l2) => {
                    let mut want = lib.clone();
                    want.version = i16::from_be_bytes([b1[4], b1[5]]);
                    if l2 != want {
                        return Some(Viol { sig: "realfs:reopen-after-overwrite/value".into(), detail: "after the file was replaced by a different stream of the same length, open returned something else than the new content (stale?)".into() });
                    }
                    *probes.entry("reopen_after_same_length_overwrite".into()).or_insert(0) += 1;
                }
                Err(e) => return Some(Viol { sig: "realfs:reopen-after-overwrite/result".into(), detail: e.to_string() }),
            }
        }
    }
    if id == "C01" {
        for (what, r) in [("open", gds21::GdsLibrary::open(&path)), ("load", gds21::GdsLibrary::load(&path))] {
            match r {
                Err(e) => return Some(Viol { sig: format!("realfs:{}/result", what), detail: format!("{} of the saved file failed: {}", what, e) }),
                Ok(l2) => {
                    if l2 != lib {
                        return Some(Viol { sig: format!("realfs:{}/value", what), detail: format!("{} of the saved file returns a different library", what) });
                    }
                }
            }
        }
    }
    None
}

/// C03 on real files: a stream from the independent encoder (plus trailing bytes) through a regular file, a named
/// pipe, and the same path overwritten by another stream of the same length. The library read is compared with the
/// encoded model by writing it with the real writer and decoding that with the reference decoder.
fn one_foreign(t: &mut Tape, dir: &Path, probes: &mut std::collections::BTreeMap<String, u64>) -> Option<Viol> {
    let (nlib, _) = gen_nlib::gen_nlib(t);
    let mut bytes = match gdsref::encode(&nlib) {
        Ok(b) => b,
        Err(_) => return None,
    };
    let endlib = bytes.len();
    let tail = t.draw(40) as usize * (t.draw(3) as usize);
    bytes.extend(std::iter::repeat(0u8).take(tail));
    let same = |lib: &gds21::GdsLibrary, want: &gdsref::NLib| -> Result<(), String> {
        let mut b = Vec::new();
        lib.write(&mut b).map_err(|e| format!("rewrite failed: {}", e))?;
        let mut pr = gdsref::DecodeProbes::default();
        let got = gdsref::scan(&b, true).and_then(|r| gdsref::decode(&r, &mut pr))?;
        match gdsref::diff(want, &got) {
            None => Ok(()),
            Some(d) => Err(format!("content differs at {}", d)),
        }
    };
    let path = nm(dir, "foreign.gds");
    std::fs::write(&path, &bytes).unwrap();
    match gds21::GdsLibrary::open(&path) {
        Err(e) => return Some(Viol { sig: "realfs:foreign-open/result".into(), detail: format!("a grammar-conformant stream in a regular file is rejected: {}", e) }),
        Ok(l) => {
            if let Err(e) = same(&l, &nlib) {
                return Some(Viol { sig: "realfs:foreign-open/value".into(), detail: e });
            }
        }
    }
    // same path, same length, different content
    let mut n2 = nlib.clone();
    n2.version = n2.version.wrapping_add(1);
    if let Ok(mut b2) = gdsref::encode(&n2) {
        b2.extend(std::iter::repeat(0u8).take(tail));
        if b2.len() == bytes.len() {
            std::fs::write(&path, &b2).unwrap();
            match gds21::GdsLibrary::open(&path) {
                Err(e) => return Some(Viol { sig: "realfs:foreign-reopen/result".into(), detail: e.to_string() }),
                Ok(l) => {
                    if let Err(e) = same(&l, &n2) {
                        return Some(Viol { sig: "realfs:foreign-reopen/value".into(), detail: format!("after the file was replaced by another stream of the same length: {}", e) });
                    }
                    *probes.entry("reopen_after_same_length_overwrite".into()).or_insert(0) += 1;
                }
            }
        }
    }
    // through a named pipe
    if bytes.len() < 60_000 {
        let fifo = dir.join("foreign.pipe");
        let _ = std::fs::remove_file(&fifo);
        let c = std::ffi::CString::new(fifo.to_string_lossy().as_bytes()).unwrap();
        if unsafe { libc::mkfifo(c.as_ptr(), 0o600) } == 0 {
            let data = bytes.clone();
            let fp = fifo.clone();
            let w = std::thread::spawn(move || {
                if let Ok(mut f) = std::fs::OpenOptions::new().write(true).open(&fp) {
                    use std::io::Write;
                    let _ = f.write_all(&data);
                }
            });
            let r = gds21::GdsLibrary::open(&fifo);
            let keep = {
                use std::os::unix::fs::OpenOptionsExt;
                std::fs::OpenOptions::new().read(true).custom_flags(libc::O_NONBLOCK).open(&fifo)
            };
            let _ = w.join();
            drop(keep);
            *probes.entry("opened_through_a_fifo".into()).or_insert(0) += 1;
            match r {
                Err(e) => return Some(Viol { sig: "realfs:foreign-fifo/result".into(), detail: format!("a conformant stream delivered through a named pipe is rejected: {}", e) }),
                Ok(l) => {
                    if let Err(e) = same(&l, &nlib) {
                        return Some(Viol { sig: "realfs:foreign-fifo/value".into(), detail: e });
                    }
                }
            }
        }
    }
    let _ = endlib;
    None
}

fn one_lef(t: &mut Tape, dir: &Path, probes: &mut std::collections::BTreeMap<String, u64>) -> Option<Viol> {
    let (text, _) = gen_lef::gen_lef_text(t, false);
    let src = nm(dir, "src.lef");
    std::fs::write(&src, &text).unwrap();
    let lib = match lef21::LefLibrary::open(&src) {
        Ok(l) => l,
        Err(_) => {
            *probes.entry("generated_text_rejected_by_reader".into()).or_insert(0) += 1;
            return None;
        }
    };
    let s0 = match lib.to_string() {
        Ok(s) => s,
        Err(e) => return Some(Viol { sig: "realfs:to_string/result".into(), detail: format!("{:?}", e) }),
    };
    let path = nm(dir, "out.lef");
    let pre = prestate(t, &path, s0.len());
    *probes.entry(format!("prestate_{}", pre)).or_insert(0) += 1;
    if let Err(e) = lib.save(&path) {
        return Some(Viol { sig: "realfs:save/result".into(), detail: format!("{:?}", e) });
    }
    let file = std::fs::read(&path).unwrap_or_default();
    if file != s0.as_bytes() {
        return Some(Viol { sig: format!("realfs:save/bytes/{}", pre), detail: format!("the saved file ({} bytes, destination was {}) differs from to_string ({} bytes)", file.len(), pre, s0.len()) });
    }
    match lef21::LefLibrary::open(&path) {
        Err(e) => Some(Viol { sig: "realfs:open/result".into(), detail: format!("{:?}", e) }),
        Ok(l2) => {
            if l2 != lib {
                Some(Viol { sig: "realfs:open/value".into(), detail: "the library read back from the saved file differs".into() })
            } else {
                None
            }
        }
    }
}

fn one_ser(t: &mut Tape, dir: &Path, probes: &mut std::collections::BTreeMap<String, u64>) -> Option<Viol> {
    use layout21converters::gds_serialization::{from_markup, to_markup, FromMarkupOptions, ToMarkupOptions};
    use layout21utils::SerializationFormat;
    let (fmt, fname) = if t.chance(1, 2) { (SerializationFormat::Json, "json") } else { (SerializationFormat::Yaml, "yaml") };
    let (lib, _) = gen_lib(t, StrProfile::Markup);
    let text = match fmt.to_string(&lib) {
        Ok(s) => s,
        Err(e) => return Some(Viol { sig: format!("realfs:{}:to_string", fname), detail: e.to_string() }),
    };
    let path = nm(dir, "lib.markup");
    let pre = prestate(t, &path, text.len());
    *probes.entry(format!("prestate_{}", pre)).or_insert(0) += 1;
    if let Err(e) = fmt.save(&lib, &path) {
        return Some(Viol { sig: format!("realfs:{}:save/result", fname), detail: e.to_string() });
    }
    match fmt.open::<gds21::GdsLibrary>(&path) {
        Err(e) => return Some(Viol { sig: format!("realfs:{}:open/result/{}", fname, pre), detail: format!("the saved file (destination was {}) does not load: {}", pre, e) }),
        Ok(l2) => {
            if l2 != lib {
                return Some(Viol { sig: format!("realfs:{}:open/value", fname), detail: "save->open changes the library".into() });
            }
        }
    }
    // the two-tool pipeline on real files
    let mut bytes0 = Vec::new();
    if lib.write(&mut bytes0).is_ok() {
        let (a, m, b) = (nm_utf8(dir, "a.gds"), nm_utf8(dir, "a.markup"), nm_utf8(dir, "b.gds"));
        std::fs::write(&a, &bytes0).unwrap();
        let _ = prestate(t, &m, text.len());
        let _ = prestate(t, &b, bytes0.len());
        let r = std::panic::catch_unwind(|| {
            to_markup(&ToMarkupOptions { gds: a.to_string_lossy().into(), fmt: fname.into(), out: m.to_string_lossy().into(), verbose: false }).map_err(|e| e.to_string())?;
            from_markup(&FromMarkupOptions { gds: b.to_string_lossy().into(), fmt: fname.into(), inp: m.to_string_lossy().into(), verbose: false }).map_err(|e| e.to_string())
        });
        match r {
            Err(_) => return Some(Viol { sig: format!("realfs:{}:pipeline/panic", fname), detail: "to_markup/from_markup panicked on real files without any fault".into() }),
            Ok(Err(e)) => return Some(Viol { sig: format!("realfs:{}:pipeline/result", fname), detail: e }),
            Ok(Ok(())) => {
                if std::fs::read(&b).unwrap_or_default() != bytes0 {
                    return Some(Viol { sig: format!("realfs:{}:pipeline/bytes", fname), detail: "gds -> markup -> gds does not reproduce the GDSII bytes on real files".into() });
                }
                *probes.entry("pipeline_bytes_identical".into()).or_insert(0) += 1;
            }
        }
    }
    None
}

/// The command-line tools themselves (thin wrappers, but they map arguments): run as child processes on real files.
/// Binaries are looked up in $L21_BINS; without it this part is skipped (and says so in the probes).
fn one_cli(id: &str, t: &mut Tape, dir: &Path, probes: &mut std::collections::BTreeMap<String, u64>) -> Option<Viol> {
    let bins = match std::env::var("L21_BINS") {
        Ok(b) if Path::new(&b).is_dir() => PathBuf::from(b),
        _ => {
            *probes.entry("cli_skipped_no_binaries".into()).or_insert(0) += 1;
            return None;
        }
    };
    let run = |exe: &str, args: &[&str]| -> Result<(), String> {
        let o = std::process::Command::new(bins.join(exe)).args(args).stdin(std::process::Stdio::null()).output().map_err(|e| format!("{}: {}", exe, e))?;
        if o.status.success() {
            Ok(())
        } else {
            Err(format!("{} {:?} exited with {} ({})", exe, args, o.status, String::from_utf8_lossy(&o.stderr).chars().take(200).collect::<String>()))
        }
    };
    let p = |n: &str| nm_utf8(dir, n).to_string_lossy().to_string();
    match id {
        "C05" => {
            let (text, _) = gen_lef::gen_lef_text(t, false);
            std::fs::write(p("cli_src.lef"), &text).unwrap();
            let lib = match lef21::LefLibrary::open(p("cli_src.lef")) {
                Ok(l) => l,
                Err(_) => return None,
            };
            let _ = std::fs::write(p("cli_out.lef"), vec![b'#'; text.len() + 999]); // a longer file is already there
            if let Err(e) = run("lefrw", &[&p("cli_src.lef"), &p("cli_out.lef")]) {
                return Some(Viol { sig: "realfs:cli:lefrw/exit".into(), detail: e });
            }
            *probes.entry("cli_lefrw_runs".into()).or_insert(0) += 1;
            // and in place: the output path is the input path
            std::fs::write(p("cli_inplace.lef"), &text).unwrap();
            if let Err(e) = run("lefrw", &[&p("cli_inplace.lef"), &p("cli_inplace.lef")]) {
                return Some(Viol { sig: "realfs:cli:lefrw-inplace/exit".into(), detail: e });
            }
            match lef21::LefLibrary::open(p("cli_inplace.lef")) {
                Ok(l2) if l2 == lib => {}
                Ok(_) => return Some(Viol { sig: "realfs:cli:lefrw-inplace/value".into(), detail: "lefrw with the same path as input and output leaves a file that reads back to a different library".into() }),
                Err(e) => return Some(Viol { sig: "realfs:cli:lefrw-inplace/reread".into(), detail: format!("lefrw in place leaves a file the reader rejects: {:?}", e) }),
            }
            match lef21::LefLibrary::open(p("cli_out.lef")) {
                Ok(l2) if l2 == lib => None,
                Ok(_) => Some(Viol { sig: "realfs:cli:lefrw/value".into(), detail: "lefrw's output reads back to a different library than its input".into() }),
                Err(e) => Some(Viol { sig: "realfs:cli:lefrw/reread".into(), detail: format!("lefrw's output is rejected by the reader: {:?}", e) }),
            }
        }
        "C18" => {
            let (lib, _) = gen_lib(t, StrProfile::Markup);
            let mut bytes0 = Vec::new();
            if lib.write(&mut bytes0).is_err() {
                return None;
            }
            std::fs::write(p("cli_a.gds"), &bytes0).unwrap();
            let (tool, fmt): (&str, &str) = *t.pick(&[("gds2json", "json"), ("gds2yaml", "yaml"), ("gds2markup", "json"), ("gds2markup", "yaml")]);
            let _ = std::fs::write(p("cli_a.mk"), vec![b' '; 200_000]);
            let _ = std::fs::write(p("cli_b.gds"), vec![0u8; bytes0.len() + 777]);
            let r = if tool == "gds2markup" { run(tool, &["-i", &p("cli_a.gds"), "-o", &p("cli_a.mk"), "-f", fmt]) } else { run(tool, &["-i", &p("cli_a.gds"), "-o", &p("cli_a.mk")]) };
            if let Err(e) = r {
                return Some(Viol { sig: format!("realfs:cli:{}/exit", tool), detail: e });
            }
            if let Err(e) = run("markup2gds", &["-i", &p("cli_a.mk"), "-f", fmt, "-o", &p("cli_b.gds")]) {
                return Some(Viol { sig: format!("realfs:cli:markup2gds/exit/{}", fmt), detail: e });
            }
            *probes.entry(format!("cli_{}_{}_runs", tool, fmt)).or_insert(0) += 1;
            if std::fs::read(p("cli_b.gds")).unwrap_or_default() != bytes0 {
                return Some(Viol { sig: format!("realfs:cli:{}+markup2gds/bytes", tool), detail: format!("{} then markup2gds ({}) does not reproduce the GDSII bytes", tool, fmt) });
            }
            None
        }
        _ => None,
    }
}

fn run_one(id: &str, master: u64, index: u64, dir: &Path, probes: &mut std::collections::BTreeMap<String, u64>) -> Option<Viol> {
    // the environment of the calls: half of the runs use the absolute scratch directory and plain names, the others
    // a relative / dotted / non-ASCII / symlinked directory and a decorated file name (cwd is the scratch directory)
    let mut et = Tape::record(run_seed(master, &format!("{}-realfs-env", id), index));
    let (dform, dirbuf): (&str, PathBuf) = if et.chance(1, 2) {
        ("absolute", dir.to_path_buf())
    } else {
        match et.draw(6) {
            0 => ("relative-bare", PathBuf::from("")),
            1 => ("relative-dot", PathBuf::from(".")),
            2 => ("dot-dotdot", PathBuf::from("./sub/..")),
            3 => ("non-ascii-subdir", dir.join("sub \u{82af}\u{7247}")),
            4 => ("symlinked-dir", dir.join("dirlink")),
            _ => ("double-slash", PathBuf::from(format!("{}//sub//", dir.display()))),
        }
    };
    let style = if et.chance(1, 2) { 0 } else { et.draw(NAME_STYLES.len() as u64) };
    NAME_STYLE.store(style, std::sync::atomic::Ordering::Relaxed);
    *probes.entry(format!("dir_form_{}", dform)).or_insert(0) += 1;
    *probes.entry(format!("name_style_{}", NAME_STYLES[style as usize])).or_insert(0) += 1;
    let dir: &Path = &dirbuf;
    // every 64th run of the file-level properties goes through the command-line tools
    if index % 64 == 63 && (id == "C05" || id == "C18") {
        let mut t = Tape::record(run_seed(master, &format!("{}-realfs-cli", id), index));
        return one_cli(id, &mut t, dir, probes);
    }
    let mut t = Tape::record(run_seed(master, &format!("{}-realfs", id), index));
    let r = std::panic::catch_unwind(std::panic::AssertUnwindSafe(|| match id {
        "C01" | "C02" => one_gds(id, &mut t, dir, probes),
        "C03" => one_foreign(&mut t, dir, probes),
        "C05" => one_lef(&mut t, dir, probes),
        "C18" => one_ser(&mut t, dir, probes),
        _ => None,
    }));
    match r {
        Ok(v) => v,
        Err(_) => Some(Viol { sig: "realfs:panic".into(), detail: "the library panicked on a fault-free real-file round trip".into() }),
    }
}

fn main() {
    let mut args: Vec<String> = std::env::args().collect();
    // the working directory changes below: make the --out argument absolute first
    if let Some(i) = args.iter().position(|a| a == "--out") {
        if let (Some(o), Ok(cwd)) = (args.get(i + 1).cloned(), std::env::current_dir()) {
            args[i + 1] = cwd.join(o).to_string_lossy().to_string();
        }
    }
    std::panic::set_hook(Box::new(|_| {}));
    let cmd = args.get(1).map(|s| s.as_str()).unwrap_or("");
    let dir = scratch();
    for sub in ["sub", "sub \u{82af}\u{7247}"] {
        std::fs::create_dir_all(dir.join(sub)).expect("scratch subdir");
    }
    let _ = std::os::unix::fs::symlink("sub", dir.join("dirlink"));
    std::env::set_current_dir(&dir).expect("cwd");
    let code = match cmd {
        "check" => {
            let id = args.get(2).cloned().unwrap_or_default();
            let runs: u64 = arg(&args, "--runs").and_then(|s| s.parse().ok()).unwrap_or(3000);
            let master: u64 = arg(&args, "--seed").and_then(|s| s.parse().ok()).or_else(|| std::env::var("VERIF_SEED").ok().and_then(|s| s.trim().parse().ok())).unwrap_or(20261003);
            let mut probes = std::collections::BTreeMap::new();
            let mut first: Option<(u64, Viol)> = None;
            let mut nviol = 0u64;
            let t0 = std::time::Instant::now();
            for i in 0..runs {
                if let Some(v) = run_one(&id, master, i, &dir, &mut probes) {
                    nviol += 1;
                    if first.is_none() {
                        first = Some((i, v));
                    }
                }
            }
            let mut exit = 0;
            if let Some((i, v)) = &first {
                let _ = std::fs::create_dir_all("/verif/replays");
                let f = format!("/verif/replays/{}-{}-{}.json", id, v.sig.replace(|c: char| !c.is_ascii_alphanumeric(), "-"), i);
                let _ = std::fs::write(&f, serde_json::to_string_pretty(&json!({"property": id, "engine": "l21real (hooks off, real files)", "master_seed": master, "run_index": i, "signature": v.sig, "detail": v.detail, "occurrences": nviol})).unwrap());
                println!("VIOLATION property={} replay={}", id, f);
                println!("  class=hook-off-realfs signature={} occurrences={} detail={}", v.sig, nviol, v.detail);
                exit = 1;
            }
            let summary = json!({"engine": "l21real: repository linked with the guard OFF, real files in a scratch directory, fault-free", "runs": runs, "violations": nviol, "probes": probes, "wall_s": t0.elapsed().as_secs_f64()});
            if let Some(o) = arg(&args, "--out") {
                let _ = std::fs::write(o, serde_json::to_string(&summary).unwrap());
            }
            println!("l21real check={} runs={} violations={} wall={:.1}s", id, runs, nviol, t0.elapsed().as_secs_f64());
            exit
        }
        "replay" => {
            let v: Value = std::fs::read_to_string(args.get(2).map(|s| s.as_str()).unwrap_or("")).ok().and_then(|s| serde_json::from_str(&s).ok()).unwrap_or(Value::Null);
            let id = v["property"].as_str().unwrap_or("").to_string();
            let mut probes = std::collections::BTreeMap::new();
            match run_one(&id, v["master_seed"].as_u64().unwrap_or(0), v["run_index"].as_u64().unwrap_or(0), &dir, &mut probes) {
                Some(x) => {
                    println!("replay: signature={} detail={}", x.sig, x.detail);
                    println!("VIOLATION property={} replay=<reproduced{}>", id, if Some(x.sig.as_str()) == v["signature"].as_str() { " exactly" } else { ": a different signature" });
                    1
                }
                None => {
                    println!("replay: no violation");
                    0
                }
            }
        }
        _ => {
            eprintln!("usage: l21real check <ID> | replay <file>");
            2
        }
    };
    let _ = std::fs::remove_dir_all(&dir);
    std::process::exit(code);
}
