#!/bin/sh
# usage: run_check.sh <property id> <quick|thorough>
# Rebuilds the simulator against /repo's current working tree (hooks on via sim/.cargo/config.toml), then runs the check.
# exit 0 held | 1 violation (VIOLATION line printed) | 2 harness/build error
ID="$1"; TIER="${2:-${VERIF_TIER:-quick}}"
cd /verif/sim || exit 2
export CARGO_NET_OFFLINE=true
mkdir -p target
if ! cargo build --release --offline >target/build.log 2>&1; then
  echo "HARNESS-ERROR: build of l21sim against /repo failed"; grep -E "^error" -A8 target/build.log | head -60
  exit 2
fi
exec ./target/release/l21sim check "$ID" --tier "$TIER"
