#!/bin/sh
# usage: run_check.sh <property id> <quick|thorough>
# Rebuilds the simulator against /repo's current working tree (hooks on via sim/.cargo/config.toml) and runs the check;
# for the file-level properties it then rebuilds and runs the hook-OFF companion (l21real) on real scratch files, so the
# shipped variants of the hooked call sites are exercised too (fault-free configuration).
# exit 0 held | 1 violation (VIOLATION line printed) | 2 harness/build error
ID="$1"; TIER="${2:-${VERIF_TIER:-quick}}"
export CARGO_NET_OFFLINE=true
cd /verif/sim || exit 2
mkdir -p target
if ! cargo build --release --offline >target/build.log 2>&1; then
  echo "HARNESS-ERROR: build of l21sim against /repo failed"; grep -E "^error" -A8 target/build.log | head -60
  exit 2
fi
./target/release/l21sim check "$ID" --tier "$TIER"; RC=$?
# "never overflows the stack" depends on the build profile: optimised builds turn some recursions into loops.
# The scale runs of C10/C11 are therefore repeated with an UNOPTIMISED build of the simulator and the repository.
case "$ID" in
  C10|C11)
    if ! cargo build --offline >target/build-dev.log 2>&1; then
      echo "HARNESS-ERROR: unoptimised build of l21sim failed"; grep -E "^error" -A8 target/build-dev.log | head -40; exit 2
    fi
    if [ "$ID" = C10 ]; then FIRST=3; NR=1; else FIRST=13; NR=3; fi
    OUTD=$(VERIF_NO_EVIDENCE=1 ./target/debug/l21sim check "$ID" --tier "$TIER" --first $FIRST --runs $NR 2>&1); RCD=$?
    echo "$OUTD" | grep -E "^VIOLATION|^  class=|^KNOWN-FINDING|^HARNESS" 
    echo "$OUTD" | grep -E "^check=" | sed 's/^check=/unoptimised-build scale pass: check=/'
    if [ -z "$VERIF_NO_EVIDENCE" ] && [ -f "/verif/evidence/$ID.json" ]; then
      python3 - "$ID" "$RCD" "$(echo "$OUTD" | grep -E '^check=' | tail -1)" <<'PY'
import json,sys
pid,rc,line=sys.argv[1],int(sys.argv[2]),sys.argv[3]
p=f'/verif/evidence/{pid}.json'
e=json.load(open(p))
e['coverage']['unoptimised_build_scale_pass']={'what':'the scale runs repeated with an opt-level 0 build of simulator + repository (stack depth of recursive code is profile dependent)','exit':rc,'summary':line}
if rc==1: e['violations']=e.get('violations',0)+1
json.dump(e,open(p,'w'),indent=1)
PY
    fi
    if [ $RCD -eq 2 ]; then exit 2; fi
    if [ $RC -eq 0 ] && [ $RCD -ne 0 ]; then RC=$RCD; fi
    ;;
esac
case "$ID" in
  C01|C02|C03|C05|C18)
    cd /verif/realfs || exit 2
    mkdir -p target
    if ! cargo build --release --offline >target/build.log 2>&1; then
      echo "HARNESS-ERROR: build of l21real (hooks off) against /repo failed"; grep -E "^error" -A8 target/build.log | head -60
      exit 2
    fi
    # the repository's own command-line tools, built as shipped (guard off) into a directory of ours
    case "$ID" in C05|C18)
      if (cd /repo && CARGO_TARGET_DIR=/verif/realfs/target-bins cargo build --release --offline --bins -p lef21 -p layout21converters >/verif/realfs/target/build-bins.log 2>&1); then
        export L21_BINS=/verif/realfs/target-bins/release
      else
        echo "HARNESS-ERROR: build of the repository's binaries failed"; grep -E "^error" -A8 /verif/realfs/target/build-bins.log | head -40; exit 2
      fi;;
    esac
    if [ "$TIER" = thorough ]; then N=200000; else N=4000; fi
    SUM=target/summary.$ID.$$.json
    ./target/release/l21real check "$ID" --runs $N --out $SUM; RC2=$?
    if [ -z "$VERIF_NO_EVIDENCE" ] && [ -f "/verif/evidence/$ID.json" ] && [ -f $SUM ]; then
      python3 - "$ID" "$SUM" <<'PY'
import json,sys
pid,summ=sys.argv[1],sys.argv[2]
p=f'/verif/evidence/{pid}.json'
e=json.load(open(p)); s=json.load(open(summ))
e['coverage']['hook_off_real_files']=s
e['coverage']['evaluations']+=s['runs']
if s['violations']: e['violations']=e.get('violations',0)+1
json.dump(e,open(p,'w'),indent=1)
PY
    fi
    rm -f $SUM
    if [ $RC2 -eq 2 ]; then exit 2; fi
    if [ $RC -eq 0 ] && [ $RC2 -ne 0 ]; then RC=$RC2; fi
    ;;
esac
exit $RC
