#!/bin/bash
# usage: verify_seeded.sh <scratch worktree> <patch.diff> <demo.rs> <crate> [baseline test list]
# Confirms a candidate breaking change independently of its author: compiles, suite outcome per test unchanged,
# demonstration passes without the change and fails with it. Prints one summary line. Leaves the worktree clean.
wt=$1; diff=$2; demo=$3; crate=$4; base=${5:-/tmp/r8_baseline_tests.txt}
export CARGO_NET_OFFLINE=true
cd "$wt" || exit 2
git checkout -q -- . ; find . -name vdemo.rs -path '*/tests/*' -delete
if [ ! -s "$base" ]; then cargo test --workspace --no-fail-fast --offline 2>&1 | grep -E '^test .* \.\.\. ' | sort > "$base"; fi
mkdir -p $crate/tests; cp "$demo" $crate/tests/vdemo.rs
cargo test -p $crate --test vdemo --offline >/tmp/vs_$$.a 2>&1; without=$?
git apply "$diff" || { echo "RESULT applies=no"; rm -f $crate/tests/vdemo.rs; exit 1; }
cargo build --workspace --offline >/tmp/vs_$$.b 2>&1; comp=$?
cargo test -p $crate --test vdemo --offline >/tmp/vs_$$.c 2>&1; with=$?
rm -f $crate/tests/vdemo.rs
cargo test --workspace --no-fail-fast --offline 2>&1 | grep -E '^test .* \.\.\. ' | sort > /tmp/vs_$$.d
if cmp -s "$base" /tmp/vs_$$.d; then suite=same; else suite=DIFFERENT; diff "$base" /tmp/vs_$$.d | head -5; fi
git checkout -q -- . ; rmdir $crate/tests 2>/dev/null
echo "RESULT compiles=$([ $comp = 0 ] && echo yes || echo NO) suite=$suite demo_without=$([ $without = 0 ] && echo passes || echo FAILS) demo_with_mutant=$([ $with != 0 ] && echo fails || echo PASSES)"
rm -f /tmp/vs_$$.*
