#!/bin/bash
# Applies every /verif/preserving/<id>/patch.diff (property-preserving refactorings) and runs ALL quick checks:
# any CAUGHT line is a false alarm (or a defect the refactoring introduced) and must be looked at.
for d in /verif/preserving/*/; do
  id=$(basename $d)
  printf "%s :: " $id
  /verif/tools/try_mutant.sh $d/patch.diff C01 C02 C03 C05 C10 C11 C18 C20 2>&1 | grep -v "^MISSED" | tr '\n' ' ' | cut -c1-500
  echo
done
