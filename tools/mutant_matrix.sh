#!/bin/sh
# runs every /verif/mutants/*.patch against its expected checks; prints a matrix
run() { printf "%s :: " "$1"; /verif/tools/try_mutant.sh /verif/mutants/$1.patch $2 2>&1 | tr '\n' ' ' | cut -c1-400; echo; }
run m01_ser_save_no_flush "C18"
run m02_lef_write_not_write_all "C05"
run m03_gds_string_write_ignores_short_count "C01 C02"
run m04_colrow_swapped_both_sides "C01 C02 C03"
run m05_strans_absmag_bit_both_sides "C01 C02 C03"
run m06_eof_accepted_as_endlib "C10"
run m07_no_record_length_parity_check "C10"
run m08_read_str_empty_panics "C01 C03 C10"
run m09_lef_lexer_counts_chars "C11"
run m10_gds_export_port_hash_order "C20"
run m11_clock_leaks_into_struct_name "C20"
run m12_lef_pin_direction_semicolon_glued "C05"
run m13_no_float_roundtrip "C18"
run m14_gds_save_no_flush "C01"
run m15_path_extensions_swapped_in_writer "C01 C02"
run m16_reader_drops_plex_on_nodes "C01 C03"
