#!/bin/bash
# Runs every /verif/seeded/<id>/patch.diff against the quick check of the property it breaks (plus C03 for C10-b1,
# where the pipe-like source lives) and writes /verif/seeded/RESULTS.txt. Takes about one minute per change.
out=/verif/seeded/RESULTS.txt
: > $out.tmp
for d in /verif/seeded/*/; do
  id=$(basename $d); p=${id%%-*}
  checks=$p
  [ "$id" = "C10-b1" ] && checks="C10 C03"
  line=$(timeout 1500 /verif/tools/try_mutant.sh $d/patch.diff $checks 2>&1 | tr '\n' ' ' | cut -c1-300)
  git -C /repo checkout -- . ; echo "$id :: $line" | tee -a $out.tmp
done
mv $out.tmp $out
