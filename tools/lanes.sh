#!/bin/bash
# usage: lanes.sh <seeded|preserving> [lanes=5]
# Runs tools/try_mutant.sh for every stored change in parallel "lanes". A lane is a private mount namespace in which
# a clone of /repo at HEAD is bind-mounted over /repo and a copy of /verif (without build output) over /verif, so the
# registered commands run unchanged and /repo itself is never touched. Results: /verif/<kind>/RESULTS.txt
kind=${1:-seeded}; N=${2:-5}; filt=${3:-}   # optional 3rd argument: only ids matching this grep pattern; results then go to RESULTS.<pattern>.txt
base=/tmp/lanes; out=/verif/$kind/RESULTS.txt; [ -n "$filt" ] && out=/verif/$kind/RESULTS.$(echo $filt | tr -cd 'A-Za-z0-9-').txt
rm -rf $base; mkdir -p $base/q
i=0
for d in /verif/$kind/*/; do [ -f $d/patch.diff ] && { [ -z "$filt" ] || basename $d | grep -q -- "$filt"; } && { i=$((i+1)); echo "$(basename $d)" > $base/q/$(printf %04d $i); }; done
for k in $(seq 1 $N); do
  mkdir -p $base/$k
  git clone -q /repo $base/$k/repo
  rsync -a --exclude .git --exclude 'sim/target' --exclude 'realfs/target*' --exclude replays --exclude miri20 /verif/ $base/$k/verif/
  (
    while :; do
      f=$(ls $base/q 2>/dev/null | head -1); [ -z "$f" ] && break
      mv $base/q/$f $base/$k/job 2>/dev/null || continue
      id=$(cat $base/$k/job); p=${id%%-*}; checks=$p
      [ "$id" = "C10-b1" ] && checks="C10 C03"
      [ "$kind" = preserving ] && checks="C01 C02 C03 C05 C10 C11 C18 C20"
      line=$(unshare -m sh -c "mount --bind $base/$k/repo /repo && mount --bind $base/$k/verif /verif && git -C /repo checkout -q -- . && VERIF_JOBS=4 timeout 3000 /verif/tools/try_mutant.sh /verif/$kind/$id/patch.diff $checks" 2>&1 | tr '\n' ' ' | cut -c1-600)
      echo "$id :: $line" >> $base/results
    done
  ) &
done
wait
sort $base/results > $out
rm -rf $base
echo "done: $(wc -l < $out) results in $out"
