#!/bin/sh
# usage: try_mutant.sh <patch.diff> <check id>...
# Applies the patch to /repo, runs the given quick checks (no evidence written), reverts /repo.
# Prints one line per check: CAUGHT / MISSED / ERROR. Exit 0 if at least one check caught it.
P="$1"; shift
if ! git -C /repo diff --quiet; then echo "refusing: /repo has uncommitted changes"; exit 2; fi
if ! git -C /repo apply "$P"; then echo "patch does not apply: $P"; exit 2; fi
caught=1
for c in "$@"; do
  out=$(VERIF_NO_EVIDENCE=1 /verif/run_check.sh "$c" quick 2>&1); rc=$?
  if [ $rc -eq 1 ]; then echo "CAUGHT by $c: $(echo "$out" | grep -m1 'class=' | cut -c1-220)"; caught=0
  elif [ $rc -eq 0 ]; then echo "MISSED by $c"
  else echo "ERROR in $c (rc=$rc): $(echo "$out" | tail -3 | cut -c1-300)"; fi
done
git -C /repo checkout -- . 
exit $caught
