#!/bin/bash
# usage: lane_one.sh <patch file> <check id>...
# try_mutant.sh inside a private mount namespace (clone of /repo at HEAD over /repo, copy of /verif over /verif),
# so a change can be tried while registered checks are running against /repo itself.
p=$(readlink -f "$1"); shift
base=/tmp/lane_one.$$; mkdir -p $base
git clone -q /repo $base/repo
rsync -a --exclude .git --exclude 'sim/target' --exclude 'realfs/target*' --exclude replays --exclude miri20 /verif/ $base/verif/
cp "$p" $base/verif/the.patch
unshare -m sh -c "mount --bind $base/repo /repo && mount --bind $base/verif /verif && VERIF_JOBS=${VERIF_JOBS:-4} timeout 3000 /verif/tools/try_mutant.sh /verif/the.patch $*"
rc=$?
rm -rf $base
exit $rc
